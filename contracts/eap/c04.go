//go:build verif

package eap

func lemma_C04_EAP(b []byte)             { _ = new(EAP).Unmarshal(b) }
func lemma_C04_EapIdentity(b []byte)     { _ = new(EapIdentity).Unmarshal(b) }
func lemma_C04_EapNotification(b []byte) { _ = new(EapNotification).Unmarshal(b) }
func lemma_C04_EapNak(b []byte)          { _ = new(EapNak).Unmarshal(b) }
func lemma_C04_EapExpanded(b []byte)     { _ = new(EapExpanded).Unmarshal(b) }
func lemma_C04_EapAkaPrime(b []byte)     { _ = new(EapAkaPrime).Unmarshal(b) }
