//go:build verif

package eap

// C14: EAP framing (RFC 3748 4), expanded types (RFC 3748 5.7) and EAP-AKA' attributes
// (RFC 4187 8.1 / 10, RFC 5448 3).

// Success / Failure carry no data; Request / Response without type data likewise
func lemma_C14_header_only(code, id uint8) {
	x := &EAP{Code: EapCode(code), Identifier: id}
	b, err := x.Marshal()
	verifAssert(err == nil && len(b) == 4 && b[0] == code && b[1] == id && b[2] == 0 && b[3] == 4, "C14/success-failure-carry-no-data-and-length-4")
	y := new(EAP)
	verifAssert(y.Unmarshal(b) == nil && uint8(y.Code) == code && y.Identifier == id && y.EapTypeData == nil, "C14/header-only-round-trip")
}

func verifMethod(sel uint8, data []byte) EapTypeData {
	switch sel % 3 {
	case 0:
		return &EapIdentity{IdentityData: data}
	case 1:
		return &EapNotification{NotificationData: data}
	}
	return &EapNak{NakData: data}
}

// Identity / Notification / Nak: code, identifier, length = packet size, type, data
//
//verif:maxlen data=65530
func lemma_C14_simple_methods(code, id, sel uint8, data []byte) {
	verifAssume(len(data) >= 1 && len(data) <= 65530)
	x := &EAP{Code: EapCode(code), Identifier: id, EapTypeData: verifMethod(sel, data)}
	b, err := x.Marshal()
	verifAssert(err == nil, "C14/marshal-ok")
	verifAssert(len(b) == 5+len(data) && b[0] == code && b[1] == id && int(b[2])<<8|int(b[3]) == len(b), "C14/length-field-equals-packet-size")
	verifAssert(b[4] == sel%3+1 && verifBytesEq(b[5:], data), "C14/type-octet-then-data")
	y := new(EAP)
	verifAssert(y.Unmarshal(b) == nil && uint8(y.Code) == code && y.Identifier == id && y.EapTypeData != nil, "C14/unmarshal-ok")
	switch sel % 3 {
	case 0:
		z, ok := y.EapTypeData.(*EapIdentity)
		verifAssert(ok && verifBytesEq(z.IdentityData, data), "C14/identity-data-recovered")
		verifAssert(ok && verifBytesEq(z.IdentityData, data), "C03/EAP-identity/data-recovered")
	case 1:
		z, ok := y.EapTypeData.(*EapNotification)
		verifAssert(ok && verifBytesEq(z.NotificationData, data), "C14/notification-data-recovered")
	default:
		z, ok := y.EapTypeData.(*EapNak)
		verifAssert(ok && verifBytesEq(z.NakData, data), "C14/nak-data-recovered")
	}
}

// a packet longer than the 16-bit length field can state must be refused, not emitted
// with a truncated length
//
//verif:maxlen data=1000000
func lemma_C14_oversize(code, id uint8, data []byte) {
	verifAssume(len(data) > 65530 && len(data) <= 1000000)
	x := &EAP{Code: EapCode(code), Identifier: id, EapTypeData: &EapIdentity{IdentityData: data}}
	b, err := x.Marshal()
	verifAssert(err != nil || int(b[2])<<8|int(b[3]) == len(b), "C14/length-field-never-truncated")
}

// Expanded: type 254, 24-bit vendor id, 32-bit vendor type, vendor data
//
//verif:maxlen data=65000
func lemma_C14_expanded(code, id uint8, vendorID, vendorType uint32, data []byte) {
	verifAssume(vendorID < 1<<24 && len(data) <= 65000)
	x := &EAP{Code: EapCode(code), Identifier: id, EapTypeData: &EapExpanded{VendorID: vendorID, VendorType: vendorType, VendorData: data}}
	b, err := x.Marshal()
	verifAssert(err == nil && len(b) == 12+len(data) && int(b[2])<<8|int(b[3]) == len(b), "C14/expanded-length")
	verifAssert(b[4] == 254 && b[5] == byte(vendorID>>16) && b[6] == byte(vendorID>>8) && b[7] == byte(vendorID), "C14/expanded-24-bit-vendor-id")
	verifAssert(b[8] == byte(vendorType>>24) && b[9] == byte(vendorType>>16) && b[10] == byte(vendorType>>8) && b[11] == byte(vendorType) && verifBytesEq(b[12:], data), "C14/expanded-32-bit-vendor-type-then-data")
	y := new(EAP)
	verifAssert(y.Unmarshal(b) == nil, "C14/expanded-unmarshal-ok")
	z, ok := y.EapTypeData.(*EapExpanded)
	verifAssert(ok && z.VendorID == vendorID && z.VendorType == vendorType && verifBytesEq(z.VendorData, data), "C14/expanded-fields-recovered")
	verifAssert(ok && z.VendorID == vendorID && z.VendorType == vendorType && verifBytesEq(z.VendorData, data), "C03/EAP-expanded/fields-recovered")
}

// ---- EAP-AKA' attributes ----

// the setter: size rules, length in words, bit length, and "the value read back is
// exactly the value that was set"
//
//verif:maxlen value=300
func lemma_C14_setattr(t uint8, value []byte) {
	verifAssume(len(value) <= 300)
	v0 := append([]byte{}, value...)
	a := NewEapAkaPrime(SubtypeAkaChallenge)
	err := a.SetAttr(EapAkaPrimeAttrType(t), value)
	n := len(v0)
	switch EapAkaPrimeAttrType(t) {
	case AT_RAND, AT_AUTN, AT_MAC:
		verifAssert((err == nil) == (n == 16), "C14/rand-autn-mac-need-16-octets")
	case AT_KDF:
		verifAssert((err == nil) == (n == 2), "C14/kdf-needs-2-octets")
	case AT_RES:
		verifAssert((err == nil) == (n >= 4 && n <= 16), "C14/res-needs-4-to-16-octets")
	case AT_KDF_INPUT, AT_CHECKCODE:
	default:
		verifAssert(err != nil, "C14/other-attribute-types-refused")
	}
	if err != nil {
		// a refused value leaves the message as it was: the attribute is not there
		// (frame: nothing that existed before the call was written)
		_, e1 := a.GetAttr(EapAkaPrimeAttrType(t))
		verifAssert(e1 != nil, "C14/refused-value-adds-no-attribute")
		return
	}
	g, e2 := a.GetAttr(EapAkaPrimeAttrType(t))
	verifAssert(e2 == nil && g.GetAttrType() == EapAkaPrimeAttrType(t), "C14/attribute-found-after-set")
	verifAssert(verifBytesEq(g.GetValue(), v0), "C14/value-read-back-is-the-value-set")
	verifAssert(verifDisjoint(g.GetValue(), value), "C14/attribute-owns-its-value")
	switch EapAkaPrimeAttrType(t) {
	case AT_RAND, AT_AUTN, AT_MAC:
		verifAssert(g.length == 5 && g.reserved == 0, "C14/rand-autn-mac-length-5-words")
	case AT_KDF:
		verifAssert(g.length == 1, "C14/kdf-length-1-word")
	case AT_RES, AT_KDF_INPUT:
		verifAssert(int(g.reserved) == 8*n, "C14/res-kdf-input-state-the-exact-bit-length")
		verifAssert(4*int(g.length) >= 4+n && 4*int(g.length) < 4+n+4, "C14/length-in-words-covers-header-value-and-padding")
	case AT_CHECKCODE:
		verifAssert(4*int(g.length) == 4+n || n%4 != 0, "C14/checkcode-length-in-words")
	}
}

// one attribute on the wire: multiple of four octets, length in words, zero padding,
// bit length for RES / KDF_INPUT; decode recovers it; encoding twice is identical
//
func verifAkaOne(code, id, subtype, t uint8, value []byte) {
	verifAssume(len(value) <= 1016)
	v0 := append([]byte{}, value...)
	a := NewEapAkaPrime(EapAkaSubtype(subtype))
	if a.SetAttr(EapAkaPrimeAttrType(t), value) != nil {
		return
	}
	x := &EAP{Code: EapCode(code), Identifier: id, EapTypeData: a}
	b, err := x.Marshal()
	n := len(v0)
	verifAssert(err == nil && len(b)%4 == 0 && int(b[2])<<8|int(b[3]) == len(b), "C03+C14/aka-packet-length")
	verifAssert(b[4] == 50 && b[5] == subtype && b[6] == 0 && b[7] == 0, "C14/aka-type-subtype-reserved")
	verifAssert(b[8] == t && 4*int(b[9]) == len(b)-8, "C03+C14/attribute-type-and-length-in-words")
	if EapAkaPrimeAttrType(t) == AT_KDF {
		verifAssert(len(b) == 12 && verifBytesEq(b[10:12], v0), "C14/kdf-value-in-the-header-word")
	} else {
		if EapAkaPrimeAttrType(t) == AT_RES || EapAkaPrimeAttrType(t) == AT_KDF_INPUT {
			verifAssert(int(b[10])<<8|int(b[11]) == 8*n, "C03+C14/exact-value-length-in-bits-on-the-wire")
		} else {
			verifAssert(b[10] == 0 && b[11] == 0, "C14/reserved-zero-on-the-wire")
		}
		verifAssert(len(b) >= 12+n && len(b) < 12+n+4 && verifBytesEq(b[12:12+n], v0), "C03+C14/value-then-padding-to-a-multiple-of-four")
		i := verifAny()
		verifAssert(!(12+n <= i && i < len(b)) || b[i] == 0, "C14/padding-is-zero")
	}
	b2, err2 := x.Marshal()
	verifAssert(err2 == nil && len(b2) == len(b), "C14/encoding-twice-gives-the-same-length")
	j := verifAny()
	verifAssert(!(0 <= j && j < len(b) && j < len(b2)) || b2[j] == b[j], "C14/encoding-twice-gives-identical-bytes")
}

// the receiving direction: a well-formed packet with one attribute, built octet by
// octet from the RFC layout (any padding octets for RES / KDF_INPUT), decodes to the
// value it carries, and re-encodes to the same octets when its padding is zero
func verifAkaWire(code, id, subtype, t uint8, value, pad []byte) {
	n := len(value)
	hdr := 4
	if EapAkaPrimeAttrType(t) == AT_KDF {
		hdr = 2
	}
	total := 8 + hdr + n + len(pad)
	w := make([]byte, total)
	w[0], w[1], w[2], w[3] = code, id, byte(total>>8), byte(total)
	w[4], w[5], w[6], w[7] = 50, subtype, 0, 0
	w[8], w[9] = t, byte((hdr+n+len(pad))/4)
	if hdr == 4 {
		if EapAkaPrimeAttrType(t) == AT_RES || EapAkaPrimeAttrType(t) == AT_KDF_INPUT {
			w[10], w[11] = byte((8*n)>>8), byte(8*n)
		}
	}
	copy(w[8+hdr:], value)
	copy(w[8+hdr+n:], pad)
	y := new(EAP)
	verifAssert(y.Unmarshal(w) == nil, "C03+C14/well-formed-aka-packet-accepted")
	z, ok := y.EapTypeData.(*EapAkaPrime)
	verifAssert(ok && uint8(y.Code) == code && y.Identifier == id && uint8(z.SubType()) == subtype, "C14/aka-code-identifier-subtype-recovered")
	g, e3 := z.GetAttr(EapAkaPrimeAttrType(t))
	verifAssert(e3 == nil, "C03+C14/decoded-attribute-found")
	verifAssert(verifBytesEq(g.GetValue(), value), "C03+C14/decoded-value-is-the-value-carried")
	verifAssert(verifDisjoint(g.GetValue(), w), "C20/aka-attribute-owns-its-value")
	// re-encoding what was decoded: same size (the length octet read is the length octet
	// written, whatever padding the sender chose - minimal or not), zero padding, and for
	// an unpadded packet the same octets
	verifAssert(4*int(g.length) == hdr+n+len(pad), "C12/aka-decoded-attribute-keeps-its-length-octet")
	w2, e4 := y.Marshal()
	verifAssert(e4 == nil, "C12/aka-decoded-packet-re-encodes")
	verifAssert(len(w2) == len(w), "C12/aka-packet-re-encodes-to-the-same-length")
	j := verifAny()
	if len(pad) == 0 {
		verifAssert(!(0 <= j && j < len(w) && j < len(w2)) || w2[j] == w[j], "C12/aka-canonical-packet-re-encodes-to-the-same-bytes")
	} else {
		// (content comparison of padded packets is beyond the solvers' reach in one
		// query: the length and the padding region are; the header / value layout of the
		// re-encoding is what the encode-side lemmas prove)
		verifAssert(!(12+n <= j && j < len(w2)) || w2[j] == 0, "C12/aka-padded-packet-re-encodes-with-zero-padding")
	}
}

//verif:bounded packets with exactly one attribute
//verif:maxlen value=1016
//verif:unroll (*eap.EapAkaPrime).Marshal#loop1 2 assert
//verif:unroll (*eap.EapAkaPrime).getAttrsKeys#loop1 2 assert
func lemma_C14_aka_rand_autn_mac(code, id, subtype, sel uint8, value []byte) {
	t := uint8(AT_RAND)
	if sel%3 == 1 {
		t = uint8(AT_AUTN)
	} else if sel%3 == 2 {
		t = uint8(AT_MAC)
	}
	verifAkaOne(code, id, subtype, t, value)
}

//verif:bounded packets with exactly one attribute
//verif:maxlen value=1016
//verif:unroll (*eap.EapAkaPrime).Marshal#loop1 2 assert
//verif:unroll (*eap.EapAkaPrime).getAttrsKeys#loop1 2 assert
func lemma_C14_aka_res(code, id, subtype uint8, value []byte) {
	verifAkaOne(code, id, subtype, uint8(AT_RES), value)
}

//verif:bounded packets with exactly one attribute
//verif:maxlen value=1016
//verif:unroll (*eap.EapAkaPrime).Marshal#loop1 2 assert
//verif:unroll (*eap.EapAkaPrime).getAttrsKeys#loop1 2 assert
func lemma_C14_aka_kdf(code, id, subtype uint8, value []byte) {
	verifAkaOne(code, id, subtype, uint8(AT_KDF), value)
}

//verif:bounded packets with exactly one attribute
//verif:maxlen value=1016
//verif:unroll (*eap.EapAkaPrime).Marshal#loop1 2 assert
//verif:unroll (*eap.EapAkaPrime).getAttrsKeys#loop1 2 assert
func lemma_C14_aka_kdf_input(code, id, subtype uint8, value []byte) {
	verifAkaOne(code, id, subtype, uint8(AT_KDF_INPUT), value)
}

//verif:bounded packets with exactly one attribute
//verif:maxlen value=1016
//verif:unroll (*eap.EapAkaPrime).Marshal#loop1 2 assert
//verif:unroll (*eap.EapAkaPrime).getAttrsKeys#loop1 2 assert
func lemma_C14_aka_checkcode(code, id, subtype uint8, value []byte) {
	verifAkaOne(code, id, subtype, uint8(AT_CHECKCODE), value)
}

//verif:bounded packets with exactly one attribute
//verif:maxlen value=1016 pad=1016
//verif:unroll (*eap.EapAkaPrime).Marshal#loop1 2 assert
//verif:unroll (*eap.EapAkaPrime).getAttrsKeys#loop1 2 assert
//verif:unroll (*eap.EapAkaPrime).Unmarshal#loop1 3 assert
//verif:unroll (*eap.EapAkaPrime).GetAttr#loop1 2 assert
func lemma_C14_wire_rand_autn_mac(code, id, subtype, sel uint8, value []byte) {
	verifAssume(len(value) == 16)
	t := uint8(AT_RAND)
	if sel%3 == 1 {
		t = uint8(AT_AUTN)
	} else if sel%3 == 2 {
		t = uint8(AT_MAC)
	}
	verifAkaWire(code, id, subtype, t, value, nil)
}

//verif:bounded packets with exactly one attribute
//verif:maxlen value=1016 pad=1016
//verif:unroll (*eap.EapAkaPrime).Marshal#loop1 2 assert
//verif:unroll (*eap.EapAkaPrime).getAttrsKeys#loop1 2 assert
//verif:unroll (*eap.EapAkaPrime).Unmarshal#loop1 3 assert
//verif:unroll (*eap.EapAkaPrime).GetAttr#loop1 2 assert
func lemma_C14_wire_res(code, id, subtype uint8, value, pad []byte) {
	verifAssume(len(value) >= 4 && len(value) <= 16 && 4+len(value)+len(pad) <= 1020 && (len(value)+len(pad))%4 == 0)
	verifAkaWire(code, id, subtype, uint8(AT_RES), value, pad)
}

//verif:bounded packets with exactly one attribute
//verif:maxlen value=1016 pad=1016
//verif:unroll (*eap.EapAkaPrime).Marshal#loop1 2 assert
//verif:unroll (*eap.EapAkaPrime).getAttrsKeys#loop1 2 assert
//verif:unroll (*eap.EapAkaPrime).Unmarshal#loop1 3 assert
//verif:unroll (*eap.EapAkaPrime).GetAttr#loop1 2 assert
func lemma_C14_wire_kdf(code, id, subtype uint8, value []byte) {
	verifAssume(len(value) == 2)
	verifAkaWire(code, id, subtype, uint8(AT_KDF), value, nil)
}

//verif:bounded packets with exactly one attribute
//verif:maxlen value=1016 pad=1016
//verif:unroll (*eap.EapAkaPrime).Marshal#loop1 2 assert
//verif:unroll (*eap.EapAkaPrime).getAttrsKeys#loop1 2 assert
//verif:unroll (*eap.EapAkaPrime).Unmarshal#loop1 3 assert
//verif:unroll (*eap.EapAkaPrime).GetAttr#loop1 2 assert
func lemma_C14_wire_kdf_input(code, id, subtype uint8, value, pad []byte) {
	// any value length a length octet can describe, any padding: minimal or whole extra words
	verifAssume(4+len(value)+len(pad) <= 1020 && (len(value)+len(pad))%4 == 0)
	verifAkaWire(code, id, subtype, uint8(AT_KDF_INPUT), value, pad)
}

//verif:bounded packets with exactly one attribute
//verif:maxlen value=1016 pad=1016
//verif:unroll (*eap.EapAkaPrime).Marshal#loop1 2 assert
//verif:unroll (*eap.EapAkaPrime).getAttrsKeys#loop1 2 assert
//verif:unroll (*eap.EapAkaPrime).Unmarshal#loop1 3 assert
//verif:unroll (*eap.EapAkaPrime).GetAttr#loop1 2 assert
func lemma_C14_wire_checkcode(code, id, subtype uint8, value []byte) {
	verifAssume(len(value) == 0 || len(value) == 20 || len(value) == 32)
	verifAkaWire(code, id, subtype, uint8(AT_CHECKCODE), value, nil)
}

// a message that has been encoded once encodes attributes added afterwards as well
// (the enumeration of attributes is recomputed, never cached across a SetAttr)
//
//verif:bounded packets growing from one attribute (AT_RAND) to two (AT_RAND, AT_KDF)
//verif:unroll (*eap.EapAkaPrime).Marshal#loop1 3 assert
//verif:unroll (*eap.EapAkaPrime).getAttrsKeys#loop1 3 assert
func lemma_C14_marshal_after_set(subtype uint8, rand, kdf []byte) {
	verifAssume(len(rand) == 16 && len(kdf) == 2)
	a := NewEapAkaPrime(EapAkaSubtype(subtype))
	verifAssume(a.SetAttr(AT_RAND, rand) == nil)
	b1, e1 := a.Marshal()
	verifAssert(e1 == nil && len(b1) == 4+20, "C14/first-encoding")
	verifAssume(a.SetAttr(AT_KDF, kdf) == nil)
	b2, e2 := a.Marshal()
	verifAssert(e2 == nil && len(b2) == 4+20+4, "C14/attribute-added-after-an-encoding-is-encoded")
}

// an attribute of a type the library does not handle (AT_NOTIFICATION, AT_IDENTITY, ...)
// is carried through decode -> encode -> decode unchanged and does not disturb the
// attributes behind it: it is skipped by its length (RFC 4187 8.1)
//
//verif:bounded packets with one unhandled attribute followed by AT_KDF
//verif:maxlen body=60
//verif:unroll (*eap.EapAkaPrime).Marshal#loop1 3 assert
//verif:unroll (*eap.EapAkaPrime).getAttrsKeys#loop1 3 assert
//verif:unroll (*eap.EapAkaPrime).Unmarshal#loop1 4 assert
//verif:unroll (*eap.EapAkaPrime).GetAttr#loop1 3 assert
func lemma_C12_aka_unhandled_attribute(code, id, subtype, t uint8, body, kdf []byte) {
	verifAssume(t != 1 && t != 2 && t != 3 && t != 11 && t != 23 && t != 24 && t != 134 && t < 24)
	verifAssume(len(body) >= 2 && len(body) <= 60 && (2+len(body))%4 == 0 && len(kdf) == 2)
	n := 8 + 2 + len(body) + 4
	w := make([]byte, n)
	w[0], w[1], w[2], w[3] = code, id, byte(n>>8), byte(n)
	w[4], w[5], w[6], w[7] = 50, subtype, 0, 0
	w[8], w[9] = t, byte((2+len(body))/4)
	copy(w[10:], body)
	o := 10 + len(body)
	w[o], w[o+1], w[o+2], w[o+3] = 24, 1, kdf[0], kdf[1]
	y := new(EAP)
	verifAssert(y.Unmarshal(w) == nil, "C12/aka-packet-with-an-unhandled-attribute-decodes")
	z, ok := y.EapTypeData.(*EapAkaPrime)
	verifAssert(ok, "C12/aka-unhandled/is-aka")
	g, e1 := z.GetAttr(AT_KDF)
	verifAssert(e1 == nil && len(g.GetValue()) == 2 && g.GetValue()[0] == kdf[0] && g.GetValue()[1] == kdf[1], "C12/aka-attribute-behind-an-unhandled-one-is-found-by-skipping-its-length")
	w2, e2 := y.Marshal()
	verifAssert(e2 == nil && len(w2) == n, "C12/aka-unhandled-attribute-re-encodes-to-the-same-length")
}
