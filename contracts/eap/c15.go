//go:build verif

package eap

import (
	"crypto/hmac"
	"crypto/sha256"
)

// C15.  HMAC-SHA-256 is an uninterpreted function over abstract byte strings; that a
// different packet or key gives a different value is the ideal-MAC assumption and is
// not a proof obligation.

func verifRefMac128(key, data []byte) []byte {
	h := hmac.New(sha256.New, key)
	h.Write(data)
	return h.Sum(nil)[:16]
}

// sender: the code is the first 16 octets of HMAC-SHA-256 under K_aut over the complete
// packet as it goes on the wire with the AT_MAC value zeroed - whatever AT_MAC held
// before.  The packet carries AT_RAND and AT_MAC.
//
//verif:bounded packets with AT_RAND and AT_MAC
//verif:bytes
//verif:maxlen key=1000000
//verif:unroll (*eap.EapAkaPrime).Marshal#loop1 3 assert
//verif:unroll (*eap.EapAkaPrime).getAttrsKeys#loop1 3 assert
func lemma_C15_sender(code, id, subtype uint8, rand, oldMac, key []byte) {
	verifAssume(len(rand) == 16 && len(oldMac) == 16)
	k0 := append([]byte{}, key...)
	a := NewEapAkaPrime(EapAkaSubtype(subtype))
	verifAssume(a.SetAttr(AT_RAND, rand) == nil && a.SetAttr(AT_MAC, oldMac) == nil)
	x := &EAP{Code: EapCode(code), Identifier: id, EapTypeData: a}
	mac, err := x.CalcEapAkaPrimeAtMAC(key)
	verifAssert(err == nil && len(mac) == 16, "C15/code-is-16-octets")
	// the wire image with AT_MAC zeroed, written out octet by octet from RFC 4187 8.1 / 10.15
	n := 8 + 20 + 20
	w := make([]byte, n)
	w[0], w[1], w[2], w[3] = code, id, byte(n>>8), byte(n)
	w[4], w[5], w[6], w[7] = 50, subtype, 0, 0
	w[8], w[9], w[10], w[11] = 1, 5, 0, 0
	copy(w[12:28], rand)
	w[28], w[29], w[30], w[31] = 11, 5, 0, 0 // AT_MAC, 16 zero octets follow
	verifAssert(verifBytesEq(mac, verifRefMac128(k0, w)), "C15/code-is-hmac-sha-256-128-over-the-wire-image-with-zero-mac-whatever-mac-was-there")
}

// computed again with the same key (what a receiver holding the same K_aut does in the
// same process): the same code, whatever was computed before.  Smallest packet: AT_MAC only.
//
//verif:bounded packets with AT_MAC only
//verif:bytes
//verif:maxlen key=1000000
//verif:unroll (*eap.EapAkaPrime).Marshal#loop1 2 assert
//verif:unroll (*eap.EapAkaPrime).getAttrsKeys#loop1 2 assert
//verif:unroll (*eap.EapAkaPrime).GetAttr#loop1 2 assert
func lemma_C15_recompute(code, id, subtype uint8, key []byte) {
	k0 := append([]byte{}, key...)
	a := NewEapAkaPrime(EapAkaSubtype(subtype))
	x := &EAP{Code: EapCode(code), Identifier: id, EapTypeData: a}
	_, err := x.CalcEapAkaPrimeAtMAC(key)
	verifAssume(err == nil)
	mac2, err2 := x.CalcEapAkaPrimeAtMAC(key)
	n := 8 + 20
	w := make([]byte, n)
	w[0], w[1], w[2], w[3] = code, id, byte(n>>8), byte(n)
	w[4], w[5], w[6], w[7] = 50, subtype, 0, 0
	w[8], w[9], w[10], w[11] = 11, 5, 0, 0
	verifAssert(err2 == nil && verifBytesEq(mac2, verifRefMac128(k0, w)), "C15/code-is-independent-of-earlier-computations")
}

// receiver: decoding the transmitted packet (attributes in ascending type order, as
// this library transmits them) and computing the code with the same key gives the
// HMAC over the transmitted octets with the AT_MAC value zeroed - i.e. the transmitted
// value when the sender computed it the same way.  The packet carries AT_RAND and AT_MAC
// (padded attributes: their decode / re-encode agreement is C14's wire lemmas).
//
//verif:bounded packets with AT_RAND and AT_MAC in ascending order
//verif:bytes
//verif:maxlen key=1000000
//verif:unroll (*eap.EapAkaPrime).Unmarshal#loop1 4 assert
//verif:unroll (*eap.EapAkaPrime).Marshal#loop1 3 assert
//verif:unroll (*eap.EapAkaPrime).getAttrsKeys#loop1 3 assert
func lemma_C15_receiver(code, id, subtype, r0, r1 uint8, rand, tag, key []byte) {
	verifAssume(len(rand) == 16 && len(tag) == 16)
	k0 := append([]byte{}, key...)
	n := 8 + 20 + 20
	w := make([]byte, n)
	w[0], w[1], w[2], w[3] = code, id, byte(n>>8), byte(n)
	// (reserved octets of the EAP-AKA' header: whatever the sender put there is part of
	// what was transmitted, hence of what the code covers.  The two reserved octets inside
	// AT_RAND / AT_AUTN / AT_MAC are zero in a well-formed packet - RFC 4187 10.6: "set to
	// zero when sending" - and the decoder drops them, so with non-zero values there the
	// receiver's code would not cover the transmitted octets: outside the property's domain)
	w[4], w[5], w[6], w[7] = 50, subtype, r0, r1
	w[8], w[9], w[10], w[11] = 1, 5, 0, 0
	copy(w[12:28], rand)
	w[28], w[29], w[30], w[31] = 11, 5, 0, 0
	w0 := append([]byte{}, w...) // the transmitted octets with the AT_MAC value zeroed
	copy(w[32:], tag)
	y := new(EAP)
	verifAssert(y.Unmarshal(w) == nil, "C15/transmitted-packet-decodes")
	mac, err := y.CalcEapAkaPrimeAtMAC(key)
	verifAssert(err == nil && len(mac) == 16, "C15/receiver-code-is-16-octets")
	verifAssert(verifBytesEq(mac, verifRefMac128(k0, w0)), "C15/receiver-computes-the-hmac-over-the-transmitted-octets-with-zero-mac")
}

// KNOWN FINDING (recorded in known_findings.json): attributes are kept in a map and
// re-encoded in ascending type order, so for a packet an independent encoder sent with
// the attributes in another order (here AT_MAC before AT_RAND) the receiver computes
// the code over octets that are not the ones transmitted.  The code is the HMAC over the
// re-encoding of the decoded packet with the AT_MAC value zeroed (lemma_C15_sender), so
// the assertion compares that re-encoding with the transmitted octets directly - which
// gives a concrete packet instead of an undecided HMAC equation.
//
//verif:bounded packets with AT_MAC, AT_RAND in descending order
//verif:unroll (*eap.EapAkaPrime).Unmarshal#loop1 4 assert
//verif:unroll (*eap.EapAkaPrime).Marshal#loop1 3 assert
//verif:unroll (*eap.EapAkaPrime).getAttrsKeys#loop1 3 assert
func lemma_C15_receiver_other_order(code, id, subtype uint8, rand, tag []byte) {
	verifAssume(len(rand) == 16 && len(tag) == 16)
	n := 8 + 20 + 20
	w := make([]byte, n)
	w[0], w[1], w[2], w[3] = code, id, byte(n>>8), byte(n)
	w[4], w[5], w[6], w[7] = 50, subtype, 0, 0
	w[8], w[9], w[10], w[11] = 11, 5, 0, 0
	copy(w[12:28], tag)
	w[28], w[29], w[30], w[31] = 1, 5, 0, 0
	copy(w[32:], rand)
	y := new(EAP)
	if y.Unmarshal(w) != nil {
		return
	}
	w2, err := y.Marshal() // the octets CalcEapAkaPrimeAtMAC feeds to the HMAC (AT_MAC value zeroed first)
	if err != nil {
		return
	}
	j := verifAny()
	verifAssert(len(w2) == len(w) && (!(0 <= j && j < len(w)) || w2[j] == w[j]), "C15/receiver-code-covers-the-transmitted-octets-in-their-transmitted-order")
}

// initMAC: whatever AT_MAC held, it holds 16 zero octets afterwards; and the code is
// refused for packets that are not EAP-AKA'
//
//verif:unroll (*eap.EapAkaPrime).GetAttr#loop1 2 assert
func lemma_C15_initmac(oldMac []byte, hadMac bool) {
	a := NewEapAkaPrime(SubtypeAkaChallenge)
	if hadMac {
		verifAssume(a.SetAttr(AT_MAC, oldMac) == nil)
	}
	verifAssert(a.initMAC() == nil, "C15/initmac-succeeds")
	g, err := a.GetAttr(AT_MAC)
	verifAssert(err == nil && len(g.GetValue()) == 16 && g.length == 5 && g.reserved == 0, "C15/initmac-sets-a-16-octet-mac-attribute")
	i := verifAny()
	verifAssert(!(0 <= i && i < 16) || g.GetValue()[i] == 0, "C15/initmac-zeroes-the-mac-whatever-it-held")
}

func lemma_C15_wrong_type(code, id uint8, data, key []byte) {
	verifAssume(len(data) >= 1)
	x := &EAP{Code: EapCode(code), Identifier: id, EapTypeData: &EapIdentity{IdentityData: data}}
	mac, err := x.CalcEapAkaPrimeAtMAC(key)
	verifAssert(err != nil && mac == nil, "C15/code-refused-for-a-packet-that-is-not-eap-aka-prime")
}
