//go:build verif

package eap

import (
	"crypto/hmac"
	"crypto/sha256"
)

// C16: the EAP-AKA' key hierarchy is PRF'(IK'|CK', "EAP-AKA'"|Identity) of RFC 5448 /
// RFC 9048, written here as the textbook iteration over the standard library's HMAC
//     T1 = HMAC-SHA-256(K, S | 0x01),  Tn = HMAC-SHA-256(K, T(n-1) | S | n)
// and compared octet by octet with what the library returns.  Both loops have the
// constant trip count 7 and are unrolled completely (unwinding assertion on), so the
// proof is complete for every IK', CK' (any lengths >= 1) and every identity string
// (lengths up to 2^40 octets: beyond that the allocations themselves fail).
//
//verif:bytes
//verif:maxlen ik=1099511627776 ck=1099511627776 identity=1099511627776
//verif:unroll eap.EapAkaPrimePRF#loop1 8 assert
//verif:unroll eap.lemma_C16_prf#loop1 8 assert
func lemma_C16_prf(ik, ck []byte, identity string) {
	kencr, kaut, kre, msk, emsk, err := EapAkaPrimePRF(ik, ck, identity)
	if len(ik) == 0 || len(ck) == 0 {
		verifAssert(err != nil, "C16/empty-key-refused")
		return
	}
	verifAssert(err == nil, "C16/accepted")
	key := make([]byte, 0, len(ik)+len(ck))
	key = append(key, ik...)
	key = append(key, ck...)
	s := []byte("EAP-AKA'" + identity)
	var mk, prev []byte
	for n := 1; n <= 7; n++ {
		h := hmac.New(sha256.New, key)
		h.Write(prev)
		h.Write(s)
		h.Write([]byte{byte(n)})
		prev = h.Sum(nil)
		mk = append(mk, prev...)
	}
	verifAssert(len(kencr) == 16 && len(kaut) == 32 && len(kre) == 32 && len(msk) == 64 && len(emsk) == 64, "C16/lengths")
	verifAssert(verifBytesEq(kencr, mk[0:16]), "C16/K_encr-is-octets-0-15")
	verifAssert(verifBytesEq(kaut, mk[16:48]), "C16/K_aut-is-octets-16-47")
	verifAssert(verifBytesEq(kre, mk[48:80]), "C16/K_re-is-octets-48-79")
	verifAssert(verifBytesEq(msk, mk[80:144]), "C16/MSK-is-octets-80-143")
	verifAssert(verifBytesEq(emsk, mk[144:208]), "C16/EMSK-is-octets-144-207")
}
