//go:build verif

package eap

// Intrinsics recognised by the verifier; executable so that lemma functions double
// as replay drivers.

type verifSkip struct{}

func verifAssert(c bool, label string) {
	if !c {
		panic("verifAssert: " + label)
	}
}

func verifAssume(c bool) {
	if !c {
		panic(verifSkip{})
	}
}

func verifCover(label string) {}
