//go:build verif

package message

import eap_message "github.com/free5gc/ike/eap"

// C03 / C05 / C20 for the loop-free payloads: value -> wire -> value, the strict RFC
// 7296 layout of the wire image, and ownership of the decoded fields.

func lemma_C03_KE(group uint16, data []byte) {
	verifAssume(len(data) >= 1)
	x := &KeyExchange{DiffieHellmanGroup: group, KeyExchangeData: data}
	fm := verifFrameBegin()
	b, err := x.Marshal()
	verifFrameEnd(fm, "C03+C20/KE/marshal-writes-nothing-that-existed-before")
	verifAssert(err == nil, "C03/KE/marshal-ok")
	// RFC 7296 3.4: DH group (16 bit), RESERVED (16 bit) = 0, data
	verifAssert(len(b) == 4+len(data), "C05/KE/length")
	verifAssert(b[0] == byte(group>>8) && b[1] == byte(group), "C05/KE/group-big-endian")
	verifAssert(b[2] == 0 && b[3] == 0, "C05/KE/reserved-zero")
	verifAssert(verifBytesEq(b[4:], data), "C05/KE/data")
	y := new(KeyExchange)
	fd := verifFrameBegin()
	verifFrameAllow(fd, y)
	verifAssert(y.Unmarshal(b) == nil, "C03/KE/unmarshal-ok")
	verifFrameEnd(fd, "C20/KE/unmarshal-writes-only-the-payload-object")
	verifAssert(y.DiffieHellmanGroup == group, "C03/KE/group")
	verifAssert(verifBytesEq(y.KeyExchangeData, data), "C03/KE/data")
	verifAssert(verifFresh(y.KeyExchangeData) && verifDisjoint(y.KeyExchangeData, b), "C20/KE/owns-data")
}

func lemma_C05_dec_KE(b []byte) {
	verifAssume(len(b) >= 5)
	y := new(KeyExchange)
	verifAssert(y.Unmarshal(b) == nil, "C05/KE/accepts-reference")
	verifAssert(y.DiffieHellmanGroup == uint16(b[0])<<8|uint16(b[1]) && verifBytesEq(y.KeyExchangeData, b[4:]), "C05/KE/fields-recovered")
	verifAssert(verifFresh(y.KeyExchangeData) && verifDisjoint(y.KeyExchangeData, b), "C20/KE/owns-data")
}

func lemma_C12_KE(b []byte) {
	x := new(KeyExchange)
	if x.Unmarshal(b) != nil {
		return
	}
	b2, err := x.Marshal()
	if err != nil {
		return
	}
	y := new(KeyExchange)
	verifAssert(y.Unmarshal(b2) == nil, "C12/KE/redecode")
	verifAssert(y.DiffieHellmanGroup == x.DiffieHellmanGroup && verifBytesEq(y.KeyExchangeData, x.KeyExchangeData), "C12/KE/equal")
	b3, err3 := y.Marshal()
	verifAssert(err3 == nil && verifBytesEq(b3, b2), "C12/KE/fixed-point")
	if len(b) >= 5 && b[2] == 0 && b[3] == 0 {
		verifAssert(verifBytesEq(b2, b), "C12/KE/canonical-identical")
	}
}

// ---- Notification: [protocol, SPI size, type(16), SPI, data] (RFC 7296 3.10) ----
func lemma_C03_Notify(proto uint8, typ uint16, spi, data []byte) {
	verifAssume(len(spi) <= 255)
	x := &Notification{ProtocolID: proto, NotifyMessageType: typ, SPI: spi, NotificationData: data}
	fm := verifFrameBegin()
	b, err := x.Marshal()
	verifFrameEnd(fm, "C03+C20/Notify/marshal-writes-nothing-that-existed-before")
	verifAssert(err == nil, "C03/Notify/marshal-ok")
	verifAssert(x.ProtocolID == proto && x.NotifyMessageType == typ && verifBytesEq(x.SPI, spi) && verifBytesEq(x.NotificationData, data), "C20/Notify/marshal-leaves-the-payload-unchanged")
	verifAssert(len(b) == 4+len(spi)+len(data) && b[0] == proto && int(b[1]) == len(spi) && b[2] == byte(typ>>8) && b[3] == byte(typ), "C05/Notify/header")
	verifAssert(verifBytesEq(b[4:4+len(spi)], spi) && verifBytesEq(b[4+len(spi):], data), "C05/Notify/spi-then-data")
	y := new(Notification)
	fd := verifFrameBegin()
	verifFrameAllow(fd, y)
	verifAssert(y.Unmarshal(b) == nil, "C03/Notify/unmarshal-ok")
	verifFrameEnd(fd, "C20/Notify/unmarshal-writes-only-the-payload-object")
	verifAssert(y.ProtocolID == proto && y.NotifyMessageType == typ, "C03/Notify/scalars")
	verifAssert(verifBytesEq(y.SPI, spi) && verifBytesEq(y.NotificationData, data), "C03/Notify/byte-strings")
	verifAssert(verifFresh(y.SPI) && verifDisjoint(y.SPI, b) && verifFresh(y.NotificationData) && verifDisjoint(y.NotificationData, b), "C20/Notify/owns-data")
}

func lemma_C05_dec_Notify(b []byte) {
	verifAssume(len(b) >= 4 && len(b) >= 4+int(b[1]))
	y := new(Notification)
	verifAssert(y.Unmarshal(b) == nil, "C05/Notify/accepts-reference")
	n := int(b[1])
	verifAssert(y.ProtocolID == b[0] && y.NotifyMessageType == uint16(b[2])<<8|uint16(b[3]), "C05/Notify/scalars-recovered")
	verifAssert(verifBytesEq(y.SPI, b[4:4+n]) && verifBytesEq(y.NotificationData, b[4+n:]), "C05/Notify/byte-strings-recovered")
}

func lemma_C12_Notify(b []byte) {
	x := new(Notification)
	if x.Unmarshal(b) != nil {
		return
	}
	b2, err := x.Marshal()
	if err != nil {
		return
	}
	y := new(Notification)
	verifAssert(y.Unmarshal(b2) == nil, "C12/Notify/redecode")
	verifAssert(y.ProtocolID == x.ProtocolID && y.NotifyMessageType == x.NotifyMessageType && verifBytesEq(y.SPI, x.SPI) && verifBytesEq(y.NotificationData, x.NotificationData), "C12/Notify/equal")
	b3, err3 := y.Marshal()
	verifAssert(err3 == nil && verifBytesEq(b3, b2), "C12/Notify/fixed-point")
	if len(b) > 0 {
		verifAssert(verifBytesEq(b2, b), "C12/Notify/canonical-identical")
	}
}

// ---- Encrypted (SK body is opaque at this level) ----
func lemma_C03_SK(next uint8, data []byte) {
	verifAssume(len(data) >= 1)
	x := &Encrypted{NextPayload: next, EncryptedData: data}
	b, err := x.Marshal()
	verifAssert(err == nil && verifBytesEq(b, data), "C03/SK/marshal")
	y := new(Encrypted)
	verifAssert(y.Unmarshal(b) == nil && verifBytesEq(y.EncryptedData, data), "C03/SK/unmarshal")
	verifAssert(verifFresh(y.EncryptedData) && verifDisjoint(y.EncryptedData, b), "C20/SK/owns-data")
}

// ---- header (RFC 7296 3.1) ----
func lemma_C03_Header(ispi, rspi uint64, next, major, minor, exch, flags uint8, mid uint32, payload []byte) {
	verifAssume(major <= 15 && minor <= 15 && len(payload) <= 1<<24)
	h := &IKEHeader{InitiatorSPI: ispi, ResponderSPI: rspi, NextPayload: next, MajorVersion: major, MinorVersion: minor,
		ExchangeType: exch, Flags: flags, MessageID: mid, PayloadBytes: payload}
	b, err := h.Marshal()
	verifAssert(err == nil, "C03/Header/marshal-ok")
	verifAssert(len(b) == 28+len(payload), "C05/Header/size")
	verifAssert(uint64(b[0])<<56|uint64(b[1])<<48|uint64(b[2])<<40|uint64(b[3])<<32|uint64(b[4])<<24|uint64(b[5])<<16|uint64(b[6])<<8|uint64(b[7]) == ispi, "C05/Header/initiator-spi")
	verifAssert(uint64(b[8])<<56|uint64(b[9])<<48|uint64(b[10])<<40|uint64(b[11])<<32|uint64(b[12])<<24|uint64(b[13])<<16|uint64(b[14])<<8|uint64(b[15]) == rspi, "C05/Header/responder-spi")
	verifAssert(b[16] == next && b[17] == major*16+minor && b[18] == exch && b[19] == flags, "C05/Header/next-version-exchange-flags")
	verifAssert(uint32(b[20])<<24|uint32(b[21])<<16|uint32(b[22])<<8|uint32(b[23]) == mid, "C05/Header/message-id")
	verifAssert(int(uint32(b[24])<<24|uint32(b[25])<<16|uint32(b[26])<<8|uint32(b[27])) == len(b), "C05/Header/length-is-datagram-size")
	verifAssert(verifBytesEq(b[28:], payload), "C05/Header/payload-follows")
	g, err2 := ParseHeader(b)
	verifAssert(err2 == nil, "C03/Header/parse-ok")
	verifAssert(g.InitiatorSPI == ispi && g.ResponderSPI == rspi && g.NextPayload == next && g.MajorVersion == major &&
		g.MinorVersion == minor && g.ExchangeType == exch && g.Flags == flags && g.MessageID == mid, "C03/Header/fields")
	verifAssert(verifBytesEq(g.PayloadBytes, payload), "C03/Header/payload-bytes")
}

// ---- EAP payload (RFC 7296 3.16): the payload body is the EAP packet (framing and
// method data are C14's lemmas in package eap; here: the wrapper adds and loses nothing)
func lemma_C03_EAPPayload(code, id uint8, ident []byte) {
	verifAssume(len(ident) >= 1 && len(ident) <= 60000)
	x := NewPayloadEap()
	x.Code = eap_message.EapCode(code)
	x.Identifier = id
	x.EapTypeData = &eap_message.EapIdentity{IdentityData: ident}
	b, err := x.Marshal()
	verifAssert(err == nil && len(b) == 5+len(ident) && b[0] == code && b[1] == id && int(b[2])<<8|int(b[3]) == len(b) && b[4] == 1 && verifBytesEq(b[5:], ident), "C05/EAP/body-is-the-eap-packet")
	y := NewPayloadEap()
	verifAssert(y.Unmarshal(b) == nil && uint8(y.Code) == code && y.Identifier == id, "C03/EAP/code-and-identifier")
	z, ok := y.EapTypeData.(*eap_message.EapIdentity)
	verifAssert(ok && verifBytesEq(z.IdentityData, ident), "C03/EAP/method-data")
	verifAssert(verifDisjoint(z.IdentityData, b), "C20/EAP/owns-data")
}
