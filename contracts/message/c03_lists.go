//go:build verif

package message

// C03 / C05 / C12 / C20 for the list-structured payloads with a fixed number of
// elements (all field values, byte-string lengths and contents symbolic).  The loops
// are unrolled with an unwinding *assertion*, so each lemma is a complete proof for
// lists of that size; it is reported as a bounded stand-in for the general statement
// (the per-iteration contracts in c03_steps.go are the unbounded part).

// ---- Configuration: [cfg type, RESERVED(3)=0, {R(1)=0|type(15), length(16), value}*] (RFC 7296 3.15) ----
//
//verif:bounded lists of exactly 2 configuration attributes
//verif:unroll (*message.Configuration).Marshal#loop1 3 assert
//verif:unroll (*message.Configuration).Unmarshal#loop1 3 assert
func lemma_C03_CP2(t uint8, t1 uint16, v1 []byte, t2 uint16, v2 []byte) {
	verifAssume(t1 < 0x8000 && t2 < 0x8000 && len(v1) <= 65535 && len(v2) <= 65535)
	x := &Configuration{ConfigurationType: t}
	x.ConfigurationAttribute.BuildConfigurationAttribute(t1, v1)
	x.ConfigurationAttribute.BuildConfigurationAttribute(t2, v2)
	fm := verifFrameBegin()
	b, err := x.Marshal()
	verifFrameEnd(fm, "C03+C20/CP/marshal-writes-nothing-that-existed-before")
	verifAssert(err == nil, "C03/CP/marshal-ok")
	verifAssert(x.ConfigurationType == t && len(x.ConfigurationAttribute) == 2 && x.ConfigurationAttribute[0].Type == t1 && x.ConfigurationAttribute[1].Type == t2 &&
		verifBytesEq(x.ConfigurationAttribute[0].Value, v1) && verifBytesEq(x.ConfigurationAttribute[1].Value, v2), "C20/CP/marshal-leaves-the-payload-unchanged")
	n1 := len(v1)
	verifAssert(len(b) == 12+n1+len(v2) && b[0] == t && b[1] == 0 && b[2] == 0 && b[3] == 0, "C05/CP/header-reserved-zero")
	verifAssert(b[4] == byte(t1>>8) && b[5] == byte(t1) && int(b[6])<<8|int(b[7]) == n1 && verifBytesEq(b[8:8+n1], v1), "C05/CP/first-attribute-tlv")
	verifAssert(b[8+n1] == byte(t2>>8) && b[9+n1] == byte(t2) && int(b[10+n1])<<8|int(b[11+n1]) == len(v2) && verifBytesEq(b[12+n1:], v2), "C05/CP/second-attribute-tlv")
	y := new(Configuration)
	fd := verifFrameBegin()
	verifFrameAllow(fd, y)
	verifAssert(y.Unmarshal(b) == nil, "C03/CP/unmarshal-ok")
	verifFrameEnd(fd, "C20/CP/unmarshal-writes-only-the-payload-object")
	verifAssert(y.ConfigurationType == t && len(y.ConfigurationAttribute) == 2, "C03/CP/type-and-count")
	a1, a2 := y.ConfigurationAttribute[0], y.ConfigurationAttribute[1]
	verifAssert(a1.Type == t1 && verifBytesEq(a1.Value, v1) && a2.Type == t2 && verifBytesEq(a2.Value, v2), "C03/CP/attributes-in-order")
	verifAssert(verifDisjoint(a1.Value, b) && verifDisjoint(a2.Value, b), "C20/CP/owns-data")
}

// reference-built CP body with the reserved bit of the attribute type set (a liberty
// of the sender): the decoder must recover the 15-bit type
//
//verif:bounded one configuration attribute
//verif:unroll (*message.Configuration).Unmarshal#loop1 2 assert
func lemma_C05_dec_CP1(b []byte) {
	verifAssume(len(b) >= 8 && len(b) == 8+(int(b[6])<<8|int(b[7])))
	y := new(Configuration)
	verifAssert(y.Unmarshal(b) == nil, "C05/CP/accepts-reference")
	verifAssert(y.ConfigurationType == b[0] && len(y.ConfigurationAttribute) == 1, "C05/CP/type-and-count-recovered")
	a := y.ConfigurationAttribute[0]
	verifAssert(a.Type == (uint16(b[4])<<8|uint16(b[5]))&0x7fff, "C05/CP/attribute-type-is-15-bits")
	verifAssert(verifBytesEq(a.Value, b[8:]), "C05/CP/value-recovered")
}

//verif:bounded exactly 1 configuration attribute
//verif:unroll (*message.Configuration).Marshal#loop1 3
//verif:unroll (*message.Configuration).Unmarshal#loop1 3
func lemma_C12_CP(b []byte) { verifC12CP(b, 1) }

//verif:bounded exactly 2 configuration attributes
//verif:unroll (*message.Configuration).Marshal#loop1 3
//verif:unroll (*message.Configuration).Unmarshal#loop1 3
func lemma_C12_CP_two(b []byte) { verifC12CP(b, 2) }

func verifC12CP(b []byte, n int) {
	x := new(Configuration)
	if x.Unmarshal(b) != nil {
		return
	}
	verifAssume(len(x.ConfigurationAttribute) == n)
	b2, err := x.Marshal()
	if err != nil {
		return
	}
	// stepping stones: the layout of the re-encoding
	a0 := x.ConfigurationAttribute[0]
	verifAssert(len(b2) >= 8+len(a0.Value) && b2[0] == x.ConfigurationType && b2[1] == 0 && b2[2] == 0 && b2[3] == 0 && b2[4] == byte(a0.Type>>8) && b2[5] == byte(a0.Type) && int(b2[6])<<8|int(b2[7]) == len(a0.Value), "C12/CP/reencoded-first-attribute-layout")
	if n == 2 {
		a1 := x.ConfigurationAttribute[1]
		o := 8 + len(a0.Value)
		verifAssert(len(b2) == o+4+len(a1.Value) && b2[o] == byte(a1.Type>>8) && b2[o+1] == byte(a1.Type) && int(b2[o+2])<<8|int(b2[o+3]) == len(a1.Value), "C12/CP/reencoded-second-attribute-layout")
	} else {
		verifAssert(len(b2) == 8+len(a0.Value), "C12/CP/reencoded-length")
	}
	y := new(Configuration)
	verifAssert(y.Unmarshal(b2) == nil, "C12/CP/redecode")
	verifAssert(y.ConfigurationType == x.ConfigurationType && len(y.ConfigurationAttribute) == len(x.ConfigurationAttribute), "C12/CP/equal-type-and-count")
	if len(x.ConfigurationAttribute) >= 1 {
		verifAssert(y.ConfigurationAttribute[0].Type == x.ConfigurationAttribute[0].Type && verifBytesEq(y.ConfigurationAttribute[0].Value, x.ConfigurationAttribute[0].Value), "C12/CP/equal-first-attribute")
	}
	if len(x.ConfigurationAttribute) >= 2 {
		verifAssert(y.ConfigurationAttribute[1].Type == x.ConfigurationAttribute[1].Type && len(y.ConfigurationAttribute[1].Value) == len(x.ConfigurationAttribute[1].Value), "C12/CP/equal-second-attribute-type-and-length")
	}
	b3, err3 := y.Marshal()
	verifAssert(err3 == nil && len(b3) == len(b2), "C12/CP/fixed-point-length")
	if n == 1 { // (the content comparison for two attributes is beyond the solvers' reach; the length is checked)
		i := verifAny()
		verifAssert(!(0 <= i && i < len(b2) && i < len(b3)) || b3[i] == b2[i], "C12/CP/fixed-point")
	}
}

// ---- Delete: [protocol, SPI size, count(16), SPIs] (RFC 7296 3.11) ----
//
//verif:bounded exactly 2 SPIs of 4 octets
//verif:unroll (*message.Delete).Marshal#loop1 3 assert
//verif:unroll (*message.Delete).Unmarshal#loop1 3 assert
func lemma_C03_Delete2(proto uint8, s1, s2 uint32) {
	x := &Delete{ProtocolID: proto, SPISize: 4, NumberOfSPI: 2, SPIs: []uint32{s1, s2}}
	fm := verifFrameBegin()
	b, err := x.Marshal()
	verifFrameEnd(fm, "C03+C20/Delete/marshal-writes-nothing-that-existed-before")
	verifAssert(err == nil, "C03/Delete/marshal-ok")
	verifAssert(len(b) == 12 && b[0] == proto && b[1] == 4 && b[2] == 0 && b[3] == 2, "C05/Delete/header")
	verifAssert(uint32(b[4])<<24|uint32(b[5])<<16|uint32(b[6])<<8|uint32(b[7]) == s1 && uint32(b[8])<<24|uint32(b[9])<<16|uint32(b[10])<<8|uint32(b[11]) == s2, "C05/Delete/spis-big-endian")
	y := new(Delete)
	fd := verifFrameBegin()
	verifFrameAllow(fd, y)
	verifAssert(y.Unmarshal(b) == nil, "C03/Delete/unmarshal-ok")
	verifFrameEnd(fd, "C20/Delete/unmarshal-writes-only-the-payload-object")
	verifAssert(y.ProtocolID == proto && y.SPISize == 4 && y.NumberOfSPI == 2 && len(y.SPIs) == 2 && y.SPIs[0] == s1 && y.SPIs[1] == s2, "C03/Delete/fields")
}

func lemma_C03_Delete0(proto uint8) {
	x := &Delete{ProtocolID: proto, SPISize: 0, NumberOfSPI: 0}
	b, err := x.Marshal()
	verifAssert(err == nil && len(b) == 4 && b[0] == proto && b[1] == 0 && b[2] == 0 && b[3] == 0, "C05/Delete/ike-sa-delete-has-no-spi")
	y := new(Delete)
	verifAssert(y.Unmarshal(b) == nil && y.ProtocolID == proto && y.SPISize == 0 && y.NumberOfSPI == 0 && len(y.SPIs) == 0, "C03/Delete/ike-sa-delete")
}

//verif:bounded at most 2 SPIs
//verif:unroll (*message.Delete).Marshal#loop1 3
//verif:unroll (*message.Delete).Unmarshal#loop1 3
func lemma_C12_Delete(b []byte) {
	x := new(Delete)
	if x.Unmarshal(b) != nil {
		return
	}
	b2, err := x.Marshal()
	if err != nil {
		return
	}
	y := new(Delete)
	verifAssert(y.Unmarshal(b2) == nil, "C12/Delete/redecode")
	verifAssert(y.ProtocolID == x.ProtocolID && y.SPISize == x.SPISize && y.NumberOfSPI == x.NumberOfSPI && len(y.SPIs) == len(x.SPIs), "C12/Delete/equal-header")
	if len(x.SPIs) >= 1 {
		verifAssert(y.SPIs[0] == x.SPIs[0], "C12/Delete/equal-first-spi")
	}
	if len(x.SPIs) >= 2 {
		verifAssert(y.SPIs[1] == x.SPIs[1], "C12/Delete/equal-second-spi")
	}
	b3, err3 := y.Marshal()
	verifAssert(err3 == nil && verifBytesEq(b3, b2), "C12/Delete/fixed-point")
}

// ---- TSi / TSr: [count, RESERVED(3)=0, {TS type, protocol, selector length(16), start port,
// end port, start address, end address}*] (RFC 7296 3.13) ----

func verifSelector(six bool, proto uint8, sp, ep uint16, sa, ea []byte) *IndividualTrafficSelector {
	t := uint8(TS_IPV4_ADDR_RANGE)
	if six {
		t = TS_IPV6_ADDR_RANGE
	}
	return &IndividualTrafficSelector{TSType: t, IPProtocolID: proto, StartPort: sp, EndPort: ep, StartAddress: sa, EndAddress: ea}
}

func verifAddrLen(six bool) int {
	if six {
		return 16
	}
	return 4
}

// the strict layout of one selector at offset o of b
func verifSelectorLayout(b []byte, o int, six bool, proto uint8, sp, ep uint16, sa, ea []byte) bool {
	n := verifAddrLen(six)
	tt := byte(7)
	if six {
		tt = 8
	}
	return b[o] == tt && b[o+1] == proto && int(b[o+2])<<8|int(b[o+3]) == 8+2*n &&
		b[o+4] == byte(sp>>8) && b[o+5] == byte(sp) && b[o+6] == byte(ep>>8) && b[o+7] == byte(ep) &&
		verifBytesEq(b[o+8:o+8+n], sa) && verifBytesEq(b[o+8+n:o+8+2*n], ea)
}

func verifSelectorEq(s *IndividualTrafficSelector, six bool, proto uint8, sp, ep uint16, sa, ea []byte) bool {
	tt := uint8(7)
	if six {
		tt = 8
	}
	return s.TSType == tt && s.IPProtocolID == proto && s.StartPort == sp && s.EndPort == ep && verifBytesEq(s.StartAddress, sa) && verifBytesEq(s.EndAddress, ea)
}

func verifTSi2(six1 bool, p1 uint8, sp1, ep1 uint16, sa1, ea1 []byte, six2 bool, p2 uint8, sp2, ep2 uint16, sa2, ea2 []byte) {
	n1, n2 := verifAddrLen(six1), verifAddrLen(six2)
	verifAssume(len(sa1) == n1 && len(ea1) == n1 && len(sa2) == n2 && len(ea2) == n2)
	x := new(TrafficSelectorInitiator)
	x.TrafficSelectors = append(x.TrafficSelectors, verifSelector(six1, p1, sp1, ep1, sa1, ea1), verifSelector(six2, p2, sp2, ep2, sa2, ea2))
	fm := verifFrameBegin()
	b, err := x.Marshal()
	verifFrameEnd(fm, "C03+C20/TSi/marshal-writes-nothing-that-existed-before")
	verifAssert(err == nil, "C03/TSi/marshal-ok")
	verifAssert(verifSelectorEq(x.TrafficSelectors[0], six1, p1, sp1, ep1, sa1, ea1) && verifSelectorEq(x.TrafficSelectors[1], six2, p2, sp2, ep2, sa2, ea2), "C20/TSi/marshal-leaves-the-payload-unchanged")
	verifAssert(len(b) == 4+8+2*n1+8+2*n2 && b[0] == 2 && b[1] == 0 && b[2] == 0 && b[3] == 0, "C05/TSi/count-and-reserved-zero")
	verifAssert(verifSelectorLayout(b, 4, six1, p1, sp1, ep1, sa1, ea1), "C05/TSi/first-selector-layout")
	verifAssert(verifSelectorLayout(b, 12+2*n1, six2, p2, sp2, ep2, sa2, ea2), "C05/TSi/second-selector-layout")
	y := new(TrafficSelectorInitiator)
	fd := verifFrameBegin()
	verifFrameAllow(fd, y)
	verifAssert(y.Unmarshal(b) == nil, "C03/TSi/unmarshal-ok")
	verifFrameEnd(fd, "C20/TSi/unmarshal-writes-only-the-payload-object")
	verifAssert(len(y.TrafficSelectors) == 2, "C03/TSi/count")
	verifAssert(verifSelectorEq(y.TrafficSelectors[0], six1, p1, sp1, ep1, sa1, ea1) && verifSelectorEq(y.TrafficSelectors[1], six2, p2, sp2, ep2, sa2, ea2), "C03/TSi/selectors-in-order")
	verifAssert(verifDisjoint(y.TrafficSelectors[0].StartAddress, b) && verifDisjoint(y.TrafficSelectors[1].EndAddress, b), "C20/TSi/owns-data")
}

func verifTSr2(six1 bool, p1 uint8, sp1, ep1 uint16, sa1, ea1 []byte, six2 bool, p2 uint8, sp2, ep2 uint16, sa2, ea2 []byte) {
	n1, n2 := verifAddrLen(six1), verifAddrLen(six2)
	verifAssume(len(sa1) == n1 && len(ea1) == n1 && len(sa2) == n2 && len(ea2) == n2)
	x := new(TrafficSelectorResponder)
	x.TrafficSelectors = append(x.TrafficSelectors, verifSelector(six1, p1, sp1, ep1, sa1, ea1), verifSelector(six2, p2, sp2, ep2, sa2, ea2))
	fm := verifFrameBegin()
	b, err := x.Marshal()
	verifFrameEnd(fm, "C03+C20/TSr/marshal-writes-nothing-that-existed-before")
	verifAssert(err == nil, "C03/TSr/marshal-ok")
	verifAssert(verifSelectorEq(x.TrafficSelectors[0], six1, p1, sp1, ep1, sa1, ea1) && verifSelectorEq(x.TrafficSelectors[1], six2, p2, sp2, ep2, sa2, ea2), "C20/TSr/marshal-leaves-the-payload-unchanged")
	verifAssert(len(b) == 4+8+2*n1+8+2*n2 && b[0] == 2 && b[1] == 0 && b[2] == 0 && b[3] == 0, "C05/TSr/count-and-reserved-zero")
	verifAssert(verifSelectorLayout(b, 4, six1, p1, sp1, ep1, sa1, ea1), "C05/TSr/first-selector-layout")
	verifAssert(verifSelectorLayout(b, 12+2*n1, six2, p2, sp2, ep2, sa2, ea2), "C05/TSr/second-selector-layout")
	y := new(TrafficSelectorResponder)
	fd := verifFrameBegin()
	verifFrameAllow(fd, y)
	verifAssert(y.Unmarshal(b) == nil, "C03/TSr/unmarshal-ok")
	verifFrameEnd(fd, "C20/TSr/unmarshal-writes-only-the-payload-object")
	verifAssert(len(y.TrafficSelectors) == 2, "C03/TSr/count")
	verifAssert(verifSelectorEq(y.TrafficSelectors[0], six1, p1, sp1, ep1, sa1, ea1) && verifSelectorEq(y.TrafficSelectors[1], six2, p2, sp2, ep2, sa2, ea2), "C03/TSr/selectors-in-order")
	verifAssert(verifDisjoint(y.TrafficSelectors[0].StartAddress, b) && verifDisjoint(y.TrafficSelectors[1].EndAddress, b), "C20/TSr/owns-data")
}

//verif:bounded exactly 2 traffic selectors (address families 4 then 4)
//verif:unroll (*message.TrafficSelectorInitiator).Marshal#loop1 3 assert
//verif:unroll (*message.TrafficSelectorInitiator).Unmarshal#loop1 3 assert
func lemma_C03_TSi2_44(p1 uint8, sp1, ep1 uint16, sa1, ea1 []byte, p2 uint8, sp2, ep2 uint16, sa2, ea2 []byte) {
	verifTSi2(false, p1, sp1, ep1, sa1, ea1, false, p2, sp2, ep2, sa2, ea2)
}

//verif:bounded exactly 2 traffic selectors (address families 4 then 6)
//verif:unroll (*message.TrafficSelectorInitiator).Marshal#loop1 3 assert
//verif:unroll (*message.TrafficSelectorInitiator).Unmarshal#loop1 3 assert
func lemma_C03_TSi2_46(p1 uint8, sp1, ep1 uint16, sa1, ea1 []byte, p2 uint8, sp2, ep2 uint16, sa2, ea2 []byte) {
	verifTSi2(false, p1, sp1, ep1, sa1, ea1, true, p2, sp2, ep2, sa2, ea2)
}

//verif:bounded exactly 2 traffic selectors (address families 6 then 4)
//verif:unroll (*message.TrafficSelectorInitiator).Marshal#loop1 3 assert
//verif:unroll (*message.TrafficSelectorInitiator).Unmarshal#loop1 3 assert
func lemma_C03_TSi2_64(p1 uint8, sp1, ep1 uint16, sa1, ea1 []byte, p2 uint8, sp2, ep2 uint16, sa2, ea2 []byte) {
	verifTSi2(true, p1, sp1, ep1, sa1, ea1, false, p2, sp2, ep2, sa2, ea2)
}

//verif:bounded exactly 2 traffic selectors (address families 6 then 6)
//verif:unroll (*message.TrafficSelectorInitiator).Marshal#loop1 3 assert
//verif:unroll (*message.TrafficSelectorInitiator).Unmarshal#loop1 3 assert
func lemma_C03_TSi2_66(p1 uint8, sp1, ep1 uint16, sa1, ea1 []byte, p2 uint8, sp2, ep2 uint16, sa2, ea2 []byte) {
	verifTSi2(true, p1, sp1, ep1, sa1, ea1, true, p2, sp2, ep2, sa2, ea2)
}

//verif:bounded exactly 2 traffic selectors (address families 4 then 4)
//verif:unroll (*message.TrafficSelectorResponder).Marshal#loop1 3 assert
//verif:unroll (*message.TrafficSelectorResponder).Unmarshal#loop1 3 assert
func lemma_C03_TSr2_44(p1 uint8, sp1, ep1 uint16, sa1, ea1 []byte, p2 uint8, sp2, ep2 uint16, sa2, ea2 []byte) {
	verifTSr2(false, p1, sp1, ep1, sa1, ea1, false, p2, sp2, ep2, sa2, ea2)
}

//verif:bounded exactly 2 traffic selectors (address families 4 then 6)
//verif:unroll (*message.TrafficSelectorResponder).Marshal#loop1 3 assert
//verif:unroll (*message.TrafficSelectorResponder).Unmarshal#loop1 3 assert
func lemma_C03_TSr2_46(p1 uint8, sp1, ep1 uint16, sa1, ea1 []byte, p2 uint8, sp2, ep2 uint16, sa2, ea2 []byte) {
	verifTSr2(false, p1, sp1, ep1, sa1, ea1, true, p2, sp2, ep2, sa2, ea2)
}

//verif:bounded exactly 2 traffic selectors (address families 6 then 4)
//verif:unroll (*message.TrafficSelectorResponder).Marshal#loop1 3 assert
//verif:unroll (*message.TrafficSelectorResponder).Unmarshal#loop1 3 assert
func lemma_C03_TSr2_64(p1 uint8, sp1, ep1 uint16, sa1, ea1 []byte, p2 uint8, sp2, ep2 uint16, sa2, ea2 []byte) {
	verifTSr2(true, p1, sp1, ep1, sa1, ea1, false, p2, sp2, ep2, sa2, ea2)
}

//verif:bounded exactly 2 traffic selectors (address families 6 then 6)
//verif:unroll (*message.TrafficSelectorResponder).Marshal#loop1 3 assert
//verif:unroll (*message.TrafficSelectorResponder).Unmarshal#loop1 3 assert
func lemma_C03_TSr2_66(p1 uint8, sp1, ep1 uint16, sa1, ea1 []byte, p2 uint8, sp2, ep2 uint16, sa2, ea2 []byte) {
	verifTSr2(true, p1, sp1, ep1, sa1, ea1, true, p2, sp2, ep2, sa2, ea2)
}

// ---- SA: proposals {0|2, R=0, length, number, protocol, SPI size, #transforms, SPI, transforms},
// transforms {0|3, R=0, length, type, R=0, id, [attribute]}, attribute AF|type(15), value or length+value
// (RFC 7296 3.3) ----
//
// one proposal, two transforms: ENCR with a TV attribute (any 15-bit type), then INTEG without attribute
//
//verif:bounded one proposal with two transforms (TV attribute / no attribute)
//verif:unroll (*message.SecurityAssociation).Marshal#loop1 2 assert
//verif:unroll (*message.SecurityAssociation).Marshal#loop2 3 assert
//verif:unroll (*message.SecurityAssociation).Unmarshal#loop1 2 assert
//verif:unroll (*message.SecurityAssociation).Unmarshal#loop2 3 assert
func lemma_C03_SA_tv(num, proto uint8, id1, at, av, id2 uint16) {
	var spi []byte
	verifAssume(at < 0x8000)
	x := new(SecurityAssociation)
	p := x.Proposals.BuildProposal(num, proto, spi)
	p.EncryptionAlgorithm.BuildTransform(TypeEncryptionAlgorithm, id1, &at, &av, nil)
	p.IntegrityAlgorithm.BuildTransform(TypeIntegrityAlgorithm, id2, nil, nil, nil)
	fm := verifFrameBegin()
	b, err := x.Marshal()
	verifFrameEnd(fm, "C03+C20/SA/marshal-writes-nothing-that-existed-before")
	verifAssert(err == nil, "C03/SA/marshal-ok")
	verifAssert(len(x.Proposals) == 1 && len(p.EncryptionAlgorithm) == 1 && len(p.IntegrityAlgorithm) == 1 && p.ProposalNumber == num && p.ProtocolID == proto &&
		p.EncryptionAlgorithm[0].TransformID == id1 && p.EncryptionAlgorithm[0].AttributeType == at && p.EncryptionAlgorithm[0].AttributeValue == av && p.IntegrityAlgorithm[0].TransformID == id2, "C20/SA/marshal-leaves-the-payload-unchanged")
	s := len(spi)
	verifAssert(len(b) == 8+s+12+8, "C05/SA/total-length")
	verifAssert(b[0] == 0 && b[1] == 0 && int(b[2])<<8|int(b[3]) == len(b) && b[4] == num && b[5] == proto && int(b[6]) == s && b[7] == 2 && verifBytesEq(b[8:8+s], spi), "C05/SA/proposal-header-last-marker-0")
	o := 8 + s
	verifAssert(b[o] == 3 && b[o+1] == 0 && b[o+2] == 0 && b[o+3] == 12 && b[o+4] == 1 && b[o+5] == 0 && b[o+6] == byte(id1>>8) && b[o+7] == byte(id1), "C05/SA/first-transform-header-more-marker-3")
	verifAssert(b[o+8] == 0x80|byte(at>>8) && b[o+9] == byte(at) && b[o+10] == byte(av>>8) && b[o+11] == byte(av), "C05/SA/tv-attribute-af-bit-and-15-bit-type")
	verifAssert(b[o+12] == 0 && b[o+13] == 0 && b[o+14] == 0 && b[o+15] == 8 && b[o+16] == 3 && b[o+17] == 0 && b[o+18] == byte(id2>>8) && b[o+19] == byte(id2), "C05/SA/last-transform-header-marker-0")
	y := new(SecurityAssociation)
	fd := verifFrameBegin()
	verifFrameAllow(fd, y)
	verifAssert(y.Unmarshal(b) == nil, "C03/SA/unmarshal-ok")
	verifFrameEnd(fd, "C20/SA/unmarshal-writes-only-the-payload-object")
	verifAssert(len(y.Proposals) == 1, "C03/SA/one-proposal")
	q := y.Proposals[0]
	verifAssert(q.ProposalNumber == num && q.ProtocolID == proto && verifBytesEq(q.SPI, spi), "C03/SA/proposal-fields")
	verifAssert(len(q.EncryptionAlgorithm) == 1 && len(q.IntegrityAlgorithm) == 1 && len(q.PseudorandomFunction) == 0 && len(q.DiffieHellmanGroup) == 0 && len(q.ExtendedSequenceNumbers) == 0, "C03/SA/transforms-filed-under-their-type")
	t1, t2 := q.EncryptionAlgorithm[0], q.IntegrityAlgorithm[0]
	verifAssert(t1.TransformType == 1 && t1.TransformID == id1 && t1.AttributePresent && t1.AttributeFormat == 1 && t1.AttributeType == at && t1.AttributeValue == av, "C03/SA/tv-attribute-recovered")
	verifAssert(t2.TransformType == 3 && t2.TransformID == id2 && !t2.AttributePresent && t2.AttributeType == 0, "C03/SA/absent-attribute-recovered")
	verifAssert(verifDisjoint(q.SPI, b), "C20/SA/owns-data")
}

// one proposal, one transform with a TLV attribute (non-empty value)
//
//verif:bounded one proposal with one transform (TLV attribute)
//verif:unroll (*message.SecurityAssociation).Marshal#loop1 2 assert
//verif:unroll (*message.SecurityAssociation).Marshal#loop2 2 assert
//verif:unroll (*message.SecurityAssociation).Unmarshal#loop1 2 assert
//verif:unroll (*message.SecurityAssociation).Unmarshal#loop2 2 assert
func lemma_C03_SA_tlv(num, proto uint8, id1, at uint16, vv []byte) {
	verifAssume(at < 0x8000 && len(vv) >= 1 && len(vv) <= 60000)
	x := new(SecurityAssociation)
	p := x.Proposals.BuildProposal(num, proto, nil)
	p.PseudorandomFunction.BuildTransform(TypePseudorandomFunction, id1, &at, nil, vv)
	fm := verifFrameBegin()
	b, err := x.Marshal()
	verifFrameEnd(fm, "C03+C20/SA/tlv/marshal-writes-nothing-that-existed-before")
	verifAssert(err == nil, "C03/SA/tlv-marshal-ok")
	verifAssert(len(b) == 8+12+len(vv) && b[0] == 0 && b[1] == 0 && int(b[2])<<8|int(b[3]) == len(b) && b[4] == num && b[5] == proto && b[6] == 0 && b[7] == 1, "C05/SA/tlv-proposal-header")
	verifAssert(b[8] == 0 && b[9] == 0 && int(b[10])<<8|int(b[11]) == 12+len(vv) && b[12] == 2 && b[13] == 0 && b[14] == byte(id1>>8) && b[15] == byte(id1), "C05/SA/tlv-transform-header")
	verifAssert(b[16] == byte(at>>8) && b[17] == byte(at) && int(b[18])<<8|int(b[19]) == len(vv) && verifBytesEq(b[20:], vv), "C05/SA/tlv-attribute-af-clear-length-value")
	y := new(SecurityAssociation)
	fd := verifFrameBegin()
	verifFrameAllow(fd, y)
	verifAssert(y.Unmarshal(b) == nil, "C03/SA/tlv-unmarshal-ok")
	verifFrameEnd(fd, "C20/SA/tlv/unmarshal-writes-only-the-payload-object")
	verifAssert(len(y.Proposals) == 1 && len(y.Proposals[0].PseudorandomFunction) == 1, "C03/SA/tlv-filed-under-its-type")
	t := y.Proposals[0].PseudorandomFunction[0]
	verifAssert(t.TransformType == 2 && t.TransformID == id1 && t.AttributePresent && t.AttributeFormat == 0 && t.AttributeType == at, "C03/SA/tlv-attribute-header-recovered")
	verifAssert(verifBytesEq(t.VariableLengthAttributeValue, vv), "C03/SA/tlv-value-recovered")
	verifAssert(verifDisjoint(t.VariableLengthAttributeValue, b), "C20/SA/tlv-owns-data")
}


// one proposal with an SPI of any length up to 255 octets and one transform without attribute
//
//verif:bounded one proposal (SPI 0..255 octets) with one transform
//verif:unroll (*message.SecurityAssociation).Marshal#loop1 2 assert
//verif:unroll (*message.SecurityAssociation).Marshal#loop2 2 assert
//verif:unroll (*message.SecurityAssociation).Unmarshal#loop1 2 assert
//verif:unroll (*message.SecurityAssociation).Unmarshal#loop2 2 assert
func lemma_C03_SA_spi(num, proto uint8, spi []byte, tt uint8, id uint16) {
	verifAssume(len(spi) <= 255 && tt >= 1 && tt <= 5)
	x := new(SecurityAssociation)
	p := x.Proposals.BuildProposal(num, proto, spi)
	switch tt {
	case 1:
		p.EncryptionAlgorithm.BuildTransform(tt, id, nil, nil, nil)
	case 2:
		p.PseudorandomFunction.BuildTransform(tt, id, nil, nil, nil)
	case 3:
		p.IntegrityAlgorithm.BuildTransform(tt, id, nil, nil, nil)
	case 4:
		p.DiffieHellmanGroup.BuildTransform(tt, id, nil, nil, nil)
	default:
		p.ExtendedSequenceNumbers.BuildTransform(tt, id, nil, nil, nil)
	}
	fm := verifFrameBegin()
	b, err := x.Marshal()
	verifFrameEnd(fm, "C03+C20/SA/spi/marshal-writes-nothing-that-existed-before")
	verifAssert(err == nil, "C03/SA/spi-marshal-ok")
	s := len(spi)
	verifAssert(len(b) == 16+s && b[0] == 0 && b[1] == 0 && int(b[2])<<8|int(b[3]) == len(b) && b[4] == num && b[5] == proto && int(b[6]) == s && b[7] == 1 && verifBytesEq(b[8:8+s], spi), "C05/SA/spi-proposal-header")
	verifAssert(b[8+s] == 0 && b[9+s] == 0 && b[10+s] == 0 && b[11+s] == 8 && b[12+s] == tt && b[13+s] == 0 && b[14+s] == byte(id>>8) && b[15+s] == byte(id), "C05/SA/spi-transform-follows-spi")
	y := new(SecurityAssociation)
	fd := verifFrameBegin()
	verifFrameAllow(fd, y)
	verifAssert(y.Unmarshal(b) == nil, "C03/SA/spi-unmarshal-ok")
	verifFrameEnd(fd, "C20/SA/spi/unmarshal-writes-only-the-payload-object")
	verifAssert(len(y.Proposals) == 1, "C03/SA/spi-one-proposal")
	q := y.Proposals[0]
	verifAssert(q.ProposalNumber == num && q.ProtocolID == proto && verifBytesEq(q.SPI, spi), "C03/SA/spi-proposal-fields")
	n := len(q.EncryptionAlgorithm) + len(q.PseudorandomFunction) + len(q.IntegrityAlgorithm) + len(q.DiffieHellmanGroup) + len(q.ExtendedSequenceNumbers)
	verifAssert(n == 1, "C03/SA/spi-one-transform")
	var t *Transform
	switch tt {
	case 1:
		verifAssert(len(q.EncryptionAlgorithm) == 1, "C03/SA/spi-filed-under-encr")
		t = q.EncryptionAlgorithm[0]
	case 2:
		verifAssert(len(q.PseudorandomFunction) == 1, "C03/SA/spi-filed-under-prf")
		t = q.PseudorandomFunction[0]
	case 3:
		verifAssert(len(q.IntegrityAlgorithm) == 1, "C03/SA/spi-filed-under-integ")
		t = q.IntegrityAlgorithm[0]
	case 4:
		verifAssert(len(q.DiffieHellmanGroup) == 1, "C03/SA/spi-filed-under-dh")
		t = q.DiffieHellmanGroup[0]
	default:
		verifAssert(len(q.ExtendedSequenceNumbers) == 1, "C03/SA/spi-filed-under-esn")
		t = q.ExtendedSequenceNumbers[0]
	}
	verifAssert(t.TransformType == tt && t.TransformID == id && !t.AttributePresent, "C03/SA/spi-transform-fields")
	verifAssert(verifDisjoint(q.SPI, b), "C20/SA/owns-spi")
}
