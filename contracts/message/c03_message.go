//go:build verif

package message

// C03 / C05 / C12 / C20 at the level of the whole message: header + generic payload
// headers + next-payload chain, for a message of two payloads of different kinds.

func verifMsg2(ispi, rspi uint64, major, minor, exch, flags uint8, mid uint32, proto uint8, typ uint16, nspi, ndata []byte, group uint16, ke []byte) *IKEMessage {
	m := new(IKEMessage)
	m.IKEHeader = &IKEHeader{InitiatorSPI: ispi, ResponderSPI: rspi, MajorVersion: major, MinorVersion: minor, ExchangeType: exch, Flags: flags, MessageID: mid}
	m.Payloads.BuildNotification(proto, typ, nspi, ndata)
	m.Payloads.BUildKeyExchange(group, ke)
	return m
}

// (three and more payloads exceed the executor's memory budget: every append of the
// encoder may or may not reallocate, and the case split doubles per append; the
// per-iteration step contracts of the chain walker are the unbounded part)
//
//verif:bounded message of exactly 2 payloads (Notify, KE), all fields symbolic
//verif:maxlen nspi=255 ndata=60000 ke=60000
//verif:unroll (*message.IKEPayloadContainer).Encode#loop1 3 assert
//verif:unroll (*message.IKEPayloadContainer).Decode#loop1 3 assert
func lemma_C03_Message2(ispi, rspi uint64, major, minor, exch, flags uint8, mid uint32, proto uint8, typ uint16, nspi, ndata []byte, group uint16, ke []byte) {
	verifAssume(major <= 15 && minor <= 15 && len(nspi) <= 255 && len(ndata) <= 60000 && len(ke) >= 1 && len(ke) <= 60000)
	m := verifMsg2(ispi, rspi, major, minor, exch, flags, mid, proto, typ, nspi, ndata, group, ke)
	p1, p2 := m.Payloads[0], m.Payloads[1]
	b, err := m.Encode()
	verifAssert(err == nil, "C03/Message/encode-ok")
	l1, l2 := 8+len(nspi)+len(ndata), 8+len(ke)
	verifAssert(len(b) == 28+l1+l2, "C05/Message/datagram-size")
	verifAssert(int(uint32(b[24])<<24|uint32(b[25])<<16|uint32(b[26])<<8|uint32(b[27])) == len(b), "C05/Message/header-length-equals-datagram-size")
	verifAssert(b[16] == 41 && b[17] == major*16+minor && b[18] == exch && b[19] == flags, "C05/Message/header-names-first-payload")
	verifAssert(b[28] == 34 && b[29] == 0 && int(b[30])<<8|int(b[31]) == l1, "C05/Message/first-generic-header-names-second-type")
	verifAssert(b[28+l1] == 0 && b[29+l1] == 0 && int(b[30+l1])<<8|int(b[31+l1]) == l2, "C05/Message/chain-ends-with-zero")
	verifAssert(b[32] == proto && int(b[33]) == len(nspi) && verifBytesEq(b[36:36+len(nspi)], nspi), "C05/Message/first-body-in-place")
	// C20: plain encoding leaves the message's payloads alone and returns a buffer of its own
	verifAssert(len(m.Payloads) == 2 && m.Payloads[0] == p1 && m.Payloads[1] == p2, "C20/Message/encode-keeps-the-payload-list")
	n1 := p1.(*Notification)
	n2 := p2.(*KeyExchange)
	verifAssert(n1.ProtocolID == proto && n1.NotifyMessageType == typ && verifBytesEq(n1.SPI, nspi) && verifBytesEq(n1.NotificationData, ndata) && n2.DiffieHellmanGroup == group && verifBytesEq(n2.KeyExchangeData, ke), "C20/Message/encode-leaves-payload-fields-unchanged")
	verifAssert(verifDisjoint(b, m.PayloadBytes) && verifDisjoint(b, n1.NotificationData) && verifDisjoint(b, n2.KeyExchangeData), "C20/Message/encode-returns-a-buffer-the-message-does-not-reference")
	// decode
	d := new(IKEMessage)
	verifAssert(d.Decode(b) == nil, "C03/Message/decode-ok")
	verifAssert(d.InitiatorSPI == ispi && d.ResponderSPI == rspi && d.MajorVersion == major && d.MinorVersion == minor && d.ExchangeType == exch && d.Flags == flags && d.MessageID == mid, "C03/Message/header-fields")
	verifAssert(len(d.Payloads) == 2, "C03/Message/payload-count")
	q1, ok1 := d.Payloads[0].(*Notification)
	q2, ok2 := d.Payloads[1].(*KeyExchange)
	verifAssert(ok1 && ok2, "C03/Message/payload-types-in-original-order")
	verifAssert(q1.ProtocolID == proto && q1.NotifyMessageType == typ && verifBytesEq(q1.SPI, nspi) && verifBytesEq(q1.NotificationData, ndata), "C03/Message/first-payload-fields")
	verifAssert(q2.DiffieHellmanGroup == group && verifBytesEq(q2.KeyExchangeData, ke), "C03/Message/second-payload-fields")
	verifAssert(verifDisjoint(q1.SPI, b) && verifDisjoint(q1.NotificationData, b) && verifDisjoint(q2.KeyExchangeData, b), "C20/Message/decoded-payloads-own-their-data")
}

// encoding the same unmodified message twice gives identical bytes
//
//verif:bounded message of exactly 2 payloads (Notify, KE)
//verif:maxlen nspi=255 ndata=60000 ke=60000
//verif:unroll (*message.IKEPayloadContainer).Encode#loop1 3 assert
func lemma_C20_EncodeTwice(ispi, rspi uint64, exch, flags uint8, mid uint32, proto uint8, typ uint16, nspi, ndata []byte, group uint16, ke []byte) {
	verifAssume(len(nspi) <= 255 && len(ndata) <= 60000 && len(ke) <= 60000)
	m := verifMsg2(ispi, rspi, 2, 0, exch, flags, mid, proto, typ, nspi, ndata, group, ke)
	b1, e1 := m.Encode()
	b2, e2 := m.Encode()
	verifAssert(e1 == nil && e2 == nil && verifBytesEq(b1, b2), "C20/Message/repeated-encodings-are-byte-identical")
	verifAssert(verifDisjoint(b1, b2), "C20/Message/each-encoding-has-its-own-buffer")
}

// the empty message: header only
//
//verif:unroll (*message.IKEPayloadContainer).Encode#loop1 1 assert
//verif:unroll (*message.IKEPayloadContainer).Decode#loop1 1 assert
func lemma_C03_Message0(ispi, rspi uint64, exch, flags uint8, mid uint32) {
	m := new(IKEMessage)
	m.IKEHeader = &IKEHeader{InitiatorSPI: ispi, ResponderSPI: rspi, MajorVersion: 2, ExchangeType: exch, Flags: flags, MessageID: mid}
	b, err := m.Encode()
	verifAssert(err == nil && len(b) == 28 && b[16] == 0 && b[27] == 28 && b[26] == 0 && b[25] == 0 && b[24] == 0, "C05/Message/empty-message-is-the-bare-header")
	d := new(IKEMessage)
	verifAssert(d.Decode(b) == nil && len(d.Payloads) == 0 && d.InitiatorSPI == ispi && d.ResponderSPI == rspi && d.ExchangeType == exch && d.Flags == flags && d.MessageID == mid, "C03/Message/empty-message-round-trip")
}

// a trailing Encrypted payload carries the type of the first inner payload in its
// generic header (RFC 7296 3.14), not 0
//
//verif:bounded container holding one SK payload
//verif:unroll (*message.IKEPayloadContainer).Encode#loop1 2 assert
//verif:unroll (*message.IKEPayloadContainer).Decode#loop1 2 assert
func lemma_C05_TrailingSK(inner uint8, data []byte) {
	verifAssume(len(data) >= 1 && len(data) <= 60000)
	var c IKEPayloadContainer
	c.BuildEncrypted(IkePayloadType(inner), data)
	b, err := c.Encode()
	verifAssert(err == nil && len(b) == 4+len(data) && b[0] == inner && b[1] == 0 && int(b[2])<<8|int(b[3]) == len(b) && verifBytesEq(b[4:], data), "C05/SK/generic-header-names-first-inner-payload")
	var d IKEPayloadContainer
	verifAssert(d.Decode(uint8(TypeSK), b) == nil && len(d) == 1, "C03/SK/decodes-as-one-payload")
	sk, ok := d[0].(*Encrypted)
	verifAssert(ok && sk.NextPayload == inner && verifBytesEq(sk.EncryptedData, data), "C03/SK/fields")
}
