//go:build verif

package message

// C04: every decoding entry point of this package on arbitrary bytes.  The lemma
// bodies only call the decoder; the obligations are the safety conditions the
// verifier generates inside (bounds, nil, type assertions, external preconditions,
// loop variants).  Receivers are built the way the library's own call sites build them.

func lemma_C04_ParseHeader(b []byte)   { _, _ = ParseHeader(b) }
//verif:summary (*message.IKEPayloadContainer).Decode
func lemma_C04_MessageDecode(b []byte) { _ = new(IKEMessage).Decode(b) }
// (the chain walker itself is verified as contract_ChainDecode in contracts.go)
func lemma_C04_ChainDecode(next uint8, b []byte) {
	var c IKEPayloadContainer
	_ = contract_ChainDecode(&c, next, b)
}
//verif:summary (*message.IKEPayloadContainer).Decode
func lemma_C04_DecodePayload(next uint8, b []byte) {
	m := new(IKEMessage)
	m.IKEHeader = new(IKEHeader)
	m.NextPayload = next
	_ = m.DecodePayload(b)
}
func lemma_C04_SA(b []byte)           { _ = new(SecurityAssociation).Unmarshal(b) }
func lemma_C04_KE(b []byte)           { _ = new(KeyExchange).Unmarshal(b) }
func lemma_C04_IDi(b []byte)          { _ = new(IdentificationInitiator).Unmarshal(b) }
func lemma_C04_IDr(b []byte)          { _ = new(IdentificationResponder).Unmarshal(b) }
func lemma_C04_CERT(b []byte)         { _ = new(Certificate).Unmarshal(b) }
func lemma_C04_CERTREQ(b []byte)      { _ = new(CertificateRequest).Unmarshal(b) }
func lemma_C04_AUTH(b []byte)         { _ = new(Authentication).Unmarshal(b) }
func lemma_C04_Nonce(b []byte)        { _ = new(Nonce).Unmarshal(b) }
func lemma_C04_Notification(b []byte) { _ = new(Notification).Unmarshal(b) }
func lemma_C04_Delete(b []byte)       { _ = new(Delete).Unmarshal(b) }
func lemma_C04_VendorID(b []byte)     { _ = new(VendorID).Unmarshal(b) }
func lemma_C04_TSi(b []byte)          { _ = new(TrafficSelectorInitiator).Unmarshal(b) }
func lemma_C04_TSr(b []byte)          { _ = new(TrafficSelectorResponder).Unmarshal(b) }
func lemma_C04_SK(b []byte)           { _ = new(Encrypted).Unmarshal(b) }
func lemma_C04_CP(b []byte)           { _ = new(Configuration).Unmarshal(b) }
func lemma_C04_EAPPayload(b []byte)   { _ = NewPayloadEap().Unmarshal(b) }
