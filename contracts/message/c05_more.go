//go:build verif

package message

// C05, additional reference-side lemmas: liberties a sender may take and markers an
// independent parser checks.

// header fields are recovered from arbitrary reference-built header octets, reserved
// flag bits included (RFC 7296 3.1: they are ignored, not cleared)
func lemma_C05_dec_Header(b []byte) {
	verifAssume(len(b) == 28 && b[24] == 0 && b[25] == 0 && b[26] == 0 && b[27] == 28)
	h, err := ParseHeader(b)
	verifAssert(err == nil, "C05/Header/accepts-reference")
	verifAssert(h.Flags == b[19] && h.ExchangeType == b[18] && h.NextPayload == b[16] && h.MajorVersion == b[17]>>4 && h.MinorVersion == b[17]&0x0f, "C05/Header/flags-exchange-next-version-recovered-bit-for-bit")
	verifAssert(h.MessageID == uint32(b[20])<<24|uint32(b[21])<<16|uint32(b[22])<<8|uint32(b[23]), "C05/Header/message-id-recovered")
	verifAssert(h.InitiatorSPI == uint64(b[0])<<56|uint64(b[1])<<48|uint64(b[2])<<40|uint64(b[3])<<32|uint64(b[4])<<24|uint64(b[5])<<16|uint64(b[6])<<8|uint64(b[7]), "C05/Header/initiator-spi-recovered")
}

// an empty message names no payload in its header, whatever the header field held
// before (a reused or decoded message object)
//
//verif:unroll (*message.IKEPayloadContainer).Encode#loop1 1 assert
func lemma_C05_EmptyMessageStaleNext(stale, exch, flags uint8, mid uint32) {
	m := new(IKEMessage)
	m.IKEHeader = &IKEHeader{MajorVersion: 2, ExchangeType: exch, Flags: flags, MessageID: mid, NextPayload: stale}
	b, err := m.Encode()
	verifAssert(err == nil && len(b) == 28 && b[16] == 0, "C05/Message/empty-message-ends-the-chain-in-the-header")
}

// the critical flag and the seven reserved bits of the generic payload header are
// ignored on an understood payload (RFC 7296 3.2): any value of octet 1
//
//verif:bounded chain of one payload (Nonce)
//verif:maxlen data=60000
//verif:unroll (*message.IKEPayloadContainer).Decode#loop1 2 assert
func lemma_C05_dec_GenericHeaderLiberties(octet1 uint8, data []byte) {
	verifAssume(len(data) >= 1 && len(data) <= 60000)
	n := 4 + len(data)
	b := make([]byte, n)
	b[0], b[1], b[2], b[3] = 0, octet1, byte(n>>8), byte(n)
	copy(b[4:], data)
	var c IKEPayloadContainer
	verifAssert(c.Decode(uint8(TypeNiNr), b) == nil && len(c) == 1, "C05/Chain/critical-and-reserved-bits-of-an-understood-payload-are-ignored")
	q, ok := c[0].(*Nonce)
	verifAssert(ok && verifBytesEq(q.NonceData, data), "C05/Chain/payload-recovered-whatever-octet-1-holds")
}

// 'last substructure' markers of the transforms in an ESP proposal without PFS:
// ENCR, INTEG, ESN  ->  3, 3, 0 (RFC 7296 3.3.2)
//
//verif:bounded one proposal with three transforms (ENCR, INTEG, ESN)
//verif:unroll (*message.SecurityAssociation).Marshal#loop1 2 assert
//verif:unroll (*message.SecurityAssociation).Marshal#loop2 4 assert
func lemma_C05_SA_markers(num uint8, idE, idI, idN uint16) {
	x := new(SecurityAssociation)
	p := x.Proposals.BuildProposal(num, TypeESP, []byte{1, 2, 3, 4})
	p.EncryptionAlgorithm.BuildTransform(TypeEncryptionAlgorithm, idE, nil, nil, nil)
	p.IntegrityAlgorithm.BuildTransform(TypeIntegrityAlgorithm, idI, nil, nil, nil)
	p.ExtendedSequenceNumbers.BuildTransform(TypeExtendedSequenceNumbers, idN, nil, nil, nil)
	b, err := x.Marshal()
	verifAssert(err == nil && len(b) == 8+4+24 && b[0] == 0 && int(b[2])<<8|int(b[3]) == len(b) && b[6] == 4 && b[7] == 3, "C05/SA/esp-proposal-header")
	verifAssert(b[12] == 3 && b[16] == 1 && b[20] == 3 && b[24] == 3 && b[28] == 0 && b[32] == 5, "C05/SA/last-substructure-markers-3-3-0-in-an-esp-proposal-without-dh")
	verifAssert(b[13] == 0 && b[21] == 0 && b[29] == 0 && int(b[14])<<8|int(b[15]) == 8 && int(b[22])<<8|int(b[23]) == 8 && int(b[30])<<8|int(b[31]) == 8, "C05/SA/transform-reserved-zero-and-lengths")
}

// C12 for the header: decode -> encode reproduces every header octet (reserved flag
// bits included), so a second decode gives an equal header
func lemma_C12_Header(b []byte) {
	verifAssume(len(b) == 28 && b[24] == 0 && b[25] == 0 && b[26] == 0 && b[27] == 28)
	h, err := ParseHeader(b)
	if err != nil {
		return
	}
	b2, err2 := h.Marshal()
	verifAssert(err2 == nil && len(b2) == 28, "C12/Header/re-encodes")
	verifAssert(b2[16] == b[16] && b2[17] == b[17] && b2[18] == b[18] && b2[19] == b[19], "C12/Header/next-version-exchange-flags-octets-identical")
	verifAssert(b2[20] == b[20] && b2[21] == b[21] && b2[22] == b[22] && b2[23] == b[23], "C12/Header/message-id-octets-identical")
	verifAssert(b2[24] == 0 && b2[25] == 0 && b2[26] == 0 && b2[27] == 28, "C12/Header/length-octets-identical")
	g, err3 := ParseHeader(b2)
	verifAssert(err3 == nil && g.InitiatorSPI == h.InitiatorSPI && g.ResponderSPI == h.ResponderSPI && g.Flags == h.Flags && g.MessageID == h.MessageID && g.ExchangeType == h.ExchangeType && g.NextPayload == h.NextPayload && g.MajorVersion == h.MajorVersion && g.MinorVersion == h.MinorVersion, "C12/Header/second-decode-gives-an-equal-header")
}

// two TLV attributes in one SA payload: each value is recovered (C03) and survives a
// re-encoding (C12)
//
//verif:bounded one proposal with two transforms carrying TLV attributes
//verif:maxlen v1=1000 v2=1000
//verif:unroll (*message.SecurityAssociation).Marshal#loop1 2 assert
//verif:unroll (*message.SecurityAssociation).Marshal#loop2 3 assert
//verif:unroll (*message.SecurityAssociation).Unmarshal#loop1 2 assert
//verif:unroll (*message.SecurityAssociation).Unmarshal#loop2 3 assert
func lemma_C03_SA_two_tlv(num, proto uint8, id1, at1 uint16, v1 []byte, id2, at2 uint16, v2 []byte) {
	verifAssume(at1 < 0x8000 && at2 < 0x8000 && len(v1) >= 1 && len(v1) <= 1000 && len(v2) >= 1 && len(v2) <= 1000)
	n1, n2 := len(v1), len(v2)
	total := 8 + 12 + n1 + 12 + n2
	b := make([]byte, total)
	b[0], b[1], b[2], b[3], b[4], b[5], b[6], b[7] = 0, 0, byte(total>>8), byte(total), num, proto, 0, 2
	o := 8
	b[o], b[o+1], b[o+2], b[o+3], b[o+4], b[o+5], b[o+6], b[o+7] = 3, 0, byte((12+n1)>>8), byte(12+n1), 2, 0, byte(id1>>8), byte(id1)
	b[o+8], b[o+9], b[o+10], b[o+11] = byte(at1>>8), byte(at1), byte(n1>>8), byte(n1)
	copy(b[o+12:], v1)
	o = 20 + n1
	b[o], b[o+1], b[o+2], b[o+3], b[o+4], b[o+5], b[o+6], b[o+7] = 0, 0, byte((12+n2)>>8), byte(12+n2), 2, 0, byte(id2>>8), byte(id2)
	b[o+8], b[o+9], b[o+10], b[o+11] = byte(at2>>8), byte(at2), byte(n2>>8), byte(n2)
	copy(b[o+12:], v2)
	y := new(SecurityAssociation)
	verifAssert(y.Unmarshal(b) == nil && len(y.Proposals) == 1 && len(y.Proposals[0].PseudorandomFunction) == 2, "C05/SA/two-tlv-transforms-accepted")
	t1, t2 := y.Proposals[0].PseudorandomFunction[0], y.Proposals[0].PseudorandomFunction[1]
	verifAssert(t1.TransformID == id1 && t1.AttributeType == at1 && verifBytesEq(t1.VariableLengthAttributeValue, v1), "C03/SA/first-tlv-value-recovered")
	verifAssert(t2.TransformID == id2 && t2.AttributeType == at2 && verifBytesEq(t2.VariableLengthAttributeValue, v2), "C03/SA/second-tlv-value-recovered")
	verifAssert(verifBytesEq(t1.VariableLengthAttributeValue, v1) && verifBytesEq(t2.VariableLengthAttributeValue, v2), "C12/SA/tlv-values-of-a-canonical-payload-are-kept")
	verifAssert(verifDisjoint(t1.VariableLengthAttributeValue, t2.VariableLengthAttributeValue), "C20/SA/tlv-values-have-their-own-storage")
	b2, err := y.Marshal()
	verifAssert(err == nil && len(b2) == total, "C12/SA/two-tlv-re-encodes-to-the-same-length")
}

// ---- reference-built bodies of the list-structured payloads (the receiving direction
// of C05; the sending direction is in c03_lists.go) ----

// Delete: two 4-octet SPIs
//
//verif:bounded exactly 2 SPIs of 4 octets
//verif:unroll (*message.Delete).Unmarshal#loop1 3 assert
//verif:unroll (*message.Delete).Marshal#loop1 3 assert
func lemma_C05_dec_Delete(proto uint8, s1, s2 uint32) {
	b := []byte{proto, 4, 0, 2, byte(s1 >> 24), byte(s1 >> 16), byte(s1 >> 8), byte(s1), byte(s2 >> 24), byte(s2 >> 16), byte(s2 >> 8), byte(s2)}
	y := new(Delete)
	verifAssert(y.Unmarshal(b) == nil, "C05/Delete/accepts-reference")
	verifAssert(y.ProtocolID == proto && y.SPISize == 4 && y.NumberOfSPI == 2 && len(y.SPIs) == 2 && y.SPIs[0] == s1 && y.SPIs[1] == s2, "C05/Delete/fields-recovered")
	b2, err := y.Marshal()
	verifAssert(err == nil && len(b2) == 12 && b2[0] == proto && b2[1] == 4 && b2[2] == 0 && b2[3] == 2, "C12/Delete/canonical-body-re-encodes-with-the-same-header")
	verifAssert(y.ProtocolID == proto && y.SPISize == 4 && len(y.SPIs) == 2 && y.SPIs[0] == s1 && y.SPIs[1] == s2, "C20/Delete/marshal-leaves-the-payload-unchanged")
}

// TSi / TSr: one IPv4 selector; the three reserved octets of the payload may hold
// anything (a liberty of the sender)
//
//verif:bounded exactly 1 traffic selector (IPv4)
//verif:unroll (*message.TrafficSelectorInitiator).Unmarshal#loop1 2 assert
//verif:unroll (*message.TrafficSelectorResponder).Unmarshal#loop1 2 assert
//verif:unroll (*message.TrafficSelectorInitiator).Marshal#loop1 2 assert
func lemma_C05_dec_TS(r1, r2, r3, proto uint8, sp, ep uint16, sa, ea []byte) {
	verifAssume(len(sa) == 4 && len(ea) == 4)
	b := make([]byte, 20)
	b[0], b[1], b[2], b[3] = 1, r1, r2, r3
	b[4], b[5], b[6], b[7] = 7, proto, 0, 16
	b[8], b[9], b[10], b[11] = byte(sp>>8), byte(sp), byte(ep>>8), byte(ep)
	copy(b[12:16], sa)
	copy(b[16:20], ea)
	y := new(TrafficSelectorInitiator)
	verifAssert(y.Unmarshal(b) == nil && len(y.TrafficSelectors) == 1, "C05/TSi/accepts-reference-with-any-reserved-octets")
	verifAssert(verifSelectorEq(y.TrafficSelectors[0], false, proto, sp, ep, sa, ea), "C05/TSi/selector-recovered")
	z := new(TrafficSelectorResponder)
	verifAssert(z.Unmarshal(b) == nil && len(z.TrafficSelectors) == 1 && verifSelectorEq(z.TrafficSelectors[0], false, proto, sp, ep, sa, ea), "C05/TSr/selector-recovered")
	b2, err := y.Marshal()
	verifAssert(err == nil && len(b2) == 20 && b2[0] == 1 && b2[1] == 0 && b2[2] == 0 && b2[3] == 0 && verifSelectorLayout(b2, 4, false, proto, sp, ep, sa, ea), "C12/TSi/re-encoding-is-canonical-and-carries-the-same-selector")
}

// SA: the sender may list the transforms of a proposal in any order and set the
// reserved octets; each transform is filed under its own type
//
//verif:bounded one proposal with two transforms in reverse type order (DH before ENCR)
//verif:unroll (*message.SecurityAssociation).Unmarshal#loop1 2 assert
//verif:unroll (*message.SecurityAssociation).Unmarshal#loop2 3 assert
func lemma_C05_dec_SA_any_order(num, proto, r1, r2, r3 uint8, idD, idE, av uint16) {
	b := make([]byte, 8+8+12)
	b[0], b[1], b[2], b[3], b[4], b[5], b[6], b[7] = 0, r1, 0, 28, num, proto, 0, 2
	b[8], b[9], b[10], b[11], b[12], b[13], b[14], b[15] = 3, r2, 0, 8, 4, r3, byte(idD>>8), byte(idD)
	b[16], b[17], b[18], b[19], b[20], b[21], b[22], b[23] = 0, 0, 0, 12, 1, 0, byte(idE>>8), byte(idE)
	b[24], b[25], b[26], b[27] = 0x80, 14, byte(av>>8), byte(av)
	y := new(SecurityAssociation)
	verifAssert(y.Unmarshal(b) == nil && len(y.Proposals) == 1, "C05/SA/accepts-reference-with-reserved-octets-and-any-transform-order")
	p := y.Proposals[0]
	verifAssert(p.ProposalNumber == num && p.ProtocolID == proto && len(p.DiffieHellmanGroup) == 1 && len(p.EncryptionAlgorithm) == 1 && len(p.IntegrityAlgorithm) == 0 && len(p.PseudorandomFunction) == 0 && len(p.ExtendedSequenceNumbers) == 0, "C05/SA/each-transform-filed-under-its-own-type")
	verifAssert(p.DiffieHellmanGroup[0].TransformID == idD && !p.DiffieHellmanGroup[0].AttributePresent, "C05/SA/dh-transform-recovered")
	e := p.EncryptionAlgorithm[0]
	verifAssert(e.TransformID == idE && e.AttributePresent && e.AttributeFormat == 1 && e.AttributeType == 14 && e.AttributeValue == av, "C05/SA/encr-transform-and-key-length-recovered")
}

// ---- Delete with any number of SPIs: a loop invariant instead of an unrolling ----
//
// The invariant talks about ONE arbitrary index verifDeleteK, chosen by the lemma before
// the call (a skolem constant: what holds for an arbitrary index holds for every index),
// which keeps it quantifier free: after n completed iterations the buffer holds the
// header and 4*n SPI octets, and SPI number k - if already written - stands at its
// offset in network byte order.
var verifDeleteK int

//verif:invariant (*message.Delete).Marshal loop1
func inv_C03_C05_delete_marshal(d *Delete, deleteData []byte, rangeindex int) bool {
	if !verifDeleteInvOn {
		return true
	}
	n := rangeindex + 1
	if n < 0 || n > len(d.SPIs) || len(deleteData) != 4+4*n {
		return false
	}
	if deleteData[0] != d.ProtocolID || deleteData[1] != d.SPISize || deleteData[2] != byte(d.NumberOfSPI>>8) || deleteData[3] != byte(d.NumberOfSPI) {
		return false
	}
	k := verifDeleteK
	if 0 <= k && k < n {
		v := d.SPIs[k]
		return deleteData[4+4*k] == byte(v>>24) && deleteData[5+4*k] == byte(v>>16) && deleteData[6+4*k] == byte(v>>8) && deleteData[7+4*k] == byte(v)
	}
	return true
}

func lemma_C05_Delete_any_count(proto uint8, spis []uint32, k int) {
	verifAssume(len(spis) >= 1 && len(spis) <= 65535 && 0 <= k && k < len(spis))
	verifDeleteK, verifDeleteInvOn = k, true
	v := spis[k]
	x := &Delete{ProtocolID: proto, SPISize: 4, NumberOfSPI: uint16(len(spis)), SPIs: spis}
	b, err := x.Marshal()
	verifAssert(err == nil && len(b) == 4+4*len(spis), "C05/Delete/any-count/length")
	verifAssert(b[0] == proto && b[1] == 4 && int(b[2])<<8|int(b[3]) == len(spis), "C05/Delete/any-count/header")
	verifAssert(b[4+4*k] == byte(v>>24) && b[5+4*k] == byte(v>>16) && b[6+4*k] == byte(v>>8) && b[7+4*k] == byte(v), "C05/Delete/any-count/every-spi-at-its-offset-in-network-order")
}

// the receiving direction, any number of SPIs: after i/4 completed iterations the payload
// object holds i/4 SPIs and SPI number k - if already decoded - is the big-endian value
// of the four octets at its offset behind the 4-octet header
var verifDeleteDK int

// (the invariants are switched on by the lemma that needs them: every other cut of these
// loops - other lemmas, the computation of callers' frames - sees the trivial invariant)
var verifDeleteInvOn bool

//verif:invariant (*message.Delete).Unmarshal loop1
func inv_C03_C05_delete_unmarshal(d *Delete, b []byte, i int) bool {
	if !verifDeleteInvOn {
		return true
	}
	if i < 0 || i%4 != 0 || i > len(b)-4 || len(d.SPIs) != i/4 {
		return false
	}
	k := verifDeleteDK
	if 0 <= k && k < i/4 {
		return d.SPIs[k] == uint32(b[4+4*k])<<24|uint32(b[5+4*k])<<16|uint32(b[6+4*k])<<8|uint32(b[7+4*k])
	}
	return true
}

func lemma_C05_dec_Delete_any_count(b []byte, k int) {
	verifAssume(len(b) >= 8 && (len(b)-4)%4 == 0 && b[1] == 4 && int(b[2])<<8|int(b[3]) == (len(b)-4)/4 && 0 <= k && k < (len(b)-4)/4)
	verifDeleteDK, verifDeleteInvOn = k, true
	y := new(Delete)
	verifAssert(y.Unmarshal(b) == nil, "C05/Delete/any-count/accepts-reference")
	verifAssert(y.ProtocolID == b[0] && y.SPISize == 4 && int(y.NumberOfSPI) == (len(b)-4)/4 && len(y.SPIs) == (len(b)-4)/4, "C05/Delete/any-count/header-and-count-recovered")
	verifAssert(y.SPIs[k] == uint32(b[4+4*k])<<24|uint32(b[5+4*k])<<16|uint32(b[6+4*k])<<8|uint32(b[7+4*k]), "C05/Delete/any-count/every-spi-recovered")
}

// value -> wire -> value for ANY number of SPIs: both loops are cut at their invariants,
// which speak about the same arbitrary index k (C03, unbounded)
func lemma_C03_Delete_any_count(proto uint8, spis []uint32, k int) {
	verifAssume(len(spis) >= 1 && len(spis) <= 65535 && 0 <= k && k < len(spis))
	verifDeleteK, verifDeleteDK, verifDeleteInvOn = k, k, true
	v := spis[k]
	x := &Delete{ProtocolID: proto, SPISize: 4, NumberOfSPI: uint16(len(spis)), SPIs: spis}
	b, err := x.Marshal()
	verifAssert(err == nil, "C03/Delete/any-count/marshal-ok")
	y := new(Delete)
	verifAssert(y.Unmarshal(b) == nil, "C03/Delete/any-count/unmarshal-ok")
	verifAssert(y.ProtocolID == proto && y.SPISize == 4 && int(y.NumberOfSPI) == len(spis) && len(y.SPIs) == len(spis), "C03/Delete/any-count/header-and-count")
	verifAssert(y.SPIs[k] == v, "C03/Delete/any-count/every-spi")
}

// decode -> encode -> decode is stable for ANY number of SPIs (C12, unbounded): whatever
// Unmarshal accepted with 4-octet SPIs re-encodes to bytes that decode to the same value
func lemma_C12_Delete_any_count(b []byte, k int) {
	verifDeleteK, verifDeleteDK, verifDeleteInvOn = k, k, true
	x := new(Delete)
	if x.Unmarshal(b) != nil || len(x.SPIs) == 0 {
		return
	}
	verifAssume(0 <= k && k < len(x.SPIs))
	v := x.SPIs[k]
	n := len(x.SPIs)
	b2, err := x.Marshal()
	if err != nil {
		return
	}
	verifAssert(len(b2) == 4+4*n && b2[1] == 4 && int(b2[2])<<8|int(b2[3]) == n, "C12/Delete/any-count/re-encoding-length-and-header")
	verifAssert(b2[4+4*k] == byte(v>>24) && b2[5+4*k] == byte(v>>16) && b2[6+4*k] == byte(v>>8) && b2[7+4*k] == byte(v), "C12/Delete/any-count/re-encoding-holds-every-spi")
	y := new(Delete)
	verifAssert(y.Unmarshal(b2) == nil, "C12/Delete/any-count/redecode")
	verifAssert(y.ProtocolID == x.ProtocolID && y.SPISize == x.SPISize && y.NumberOfSPI == x.NumberOfSPI && len(y.SPIs) == n, "C12/Delete/any-count/equal-header")
	// (y.SPIs[k] == v itself is left to the composition of two discharged facts: the re-encoding holds
	// the four octets of v at offset 4+4k (above), and lemma_C05_dec_Delete_any_count recovers from ANY such
	// bytes the big-endian value at that offset; stated directly, the solvers do not finish the
	// byte-split / recombination of a value that is itself a recombination of four octets of b)
	verifAssert(len(y.SPIs) > k, "C12/Delete/any-count/every-spi-present")
}
