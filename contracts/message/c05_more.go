//go:build verif

package message

// C05, additional reference-side lemmas: liberties a sender may take and markers an
// independent parser checks.

// header fields are recovered from arbitrary reference-built header octets, reserved
// flag bits included (RFC 7296 3.1: they are ignored, not cleared)
func lemma_C05_dec_Header(b []byte) {
	verifAssume(len(b) == 28 && b[24] == 0 && b[25] == 0 && b[26] == 0 && b[27] == 28)
	h, err := ParseHeader(b)
	verifAssert(err == nil, "C05/Header/accepts-reference")
	verifAssert(h.Flags == b[19] && h.ExchangeType == b[18] && h.NextPayload == b[16] && h.MajorVersion == b[17]>>4 && h.MinorVersion == b[17]&0x0f, "C05/Header/flags-exchange-next-version-recovered-bit-for-bit")
	verifAssert(h.MessageID == uint32(b[20])<<24|uint32(b[21])<<16|uint32(b[22])<<8|uint32(b[23]), "C05/Header/message-id-recovered")
	verifAssert(h.InitiatorSPI == uint64(b[0])<<56|uint64(b[1])<<48|uint64(b[2])<<40|uint64(b[3])<<32|uint64(b[4])<<24|uint64(b[5])<<16|uint64(b[6])<<8|uint64(b[7]), "C05/Header/initiator-spi-recovered")
}

// an empty message names no payload in its header, whatever the header field held
// before (a reused or decoded message object)
//
//verif:unroll (*message.IKEPayloadContainer).Encode#loop1 1 assert
func lemma_C05_EmptyMessageStaleNext(stale, exch, flags uint8, mid uint32) {
	m := new(IKEMessage)
	m.IKEHeader = &IKEHeader{MajorVersion: 2, ExchangeType: exch, Flags: flags, MessageID: mid, NextPayload: stale}
	b, err := m.Encode()
	verifAssert(err == nil && len(b) == 28 && b[16] == 0, "C05/Message/empty-message-ends-the-chain-in-the-header")
}

// the critical flag and the seven reserved bits of the generic payload header are
// ignored on an understood payload (RFC 7296 3.2): any value of octet 1
//
//verif:bounded chain of one payload (Nonce)
//verif:maxlen data=60000
//verif:unroll (*message.IKEPayloadContainer).Decode#loop1 2 assert
func lemma_C05_dec_GenericHeaderLiberties(octet1 uint8, data []byte) {
	verifAssume(len(data) >= 1 && len(data) <= 60000)
	n := 4 + len(data)
	b := make([]byte, n)
	b[0], b[1], b[2], b[3] = 0, octet1, byte(n>>8), byte(n)
	copy(b[4:], data)
	var c IKEPayloadContainer
	verifAssert(c.Decode(uint8(TypeNiNr), b) == nil && len(c) == 1, "C05/Chain/critical-and-reserved-bits-of-an-understood-payload-are-ignored")
	q, ok := c[0].(*Nonce)
	verifAssert(ok && verifBytesEq(q.NonceData, data), "C05/Chain/payload-recovered-whatever-octet-1-holds")
}

// 'last substructure' markers of the transforms in an ESP proposal without PFS:
// ENCR, INTEG, ESN  ->  3, 3, 0 (RFC 7296 3.3.2)
//
//verif:bounded one proposal with three transforms (ENCR, INTEG, ESN)
//verif:unroll (*message.SecurityAssociation).Marshal#loop1 2 assert
//verif:unroll (*message.SecurityAssociation).Marshal#loop2 4 assert
func lemma_C05_SA_markers(num uint8, idE, idI, idN uint16) {
	x := new(SecurityAssociation)
	p := x.Proposals.BuildProposal(num, TypeESP, []byte{1, 2, 3, 4})
	p.EncryptionAlgorithm.BuildTransform(TypeEncryptionAlgorithm, idE, nil, nil, nil)
	p.IntegrityAlgorithm.BuildTransform(TypeIntegrityAlgorithm, idI, nil, nil, nil)
	p.ExtendedSequenceNumbers.BuildTransform(TypeExtendedSequenceNumbers, idN, nil, nil, nil)
	b, err := x.Marshal()
	verifAssert(err == nil && len(b) == 8+4+24 && b[0] == 0 && int(b[2])<<8|int(b[3]) == len(b) && b[6] == 4 && b[7] == 3, "C05/SA/esp-proposal-header")
	verifAssert(b[12] == 3 && b[16] == 1 && b[20] == 3 && b[24] == 3 && b[28] == 0 && b[32] == 5, "C05/SA/last-substructure-markers-3-3-0-in-an-esp-proposal-without-dh")
	verifAssert(b[13] == 0 && b[21] == 0 && b[29] == 0 && int(b[14])<<8|int(b[15]) == 8 && int(b[22])<<8|int(b[23]) == 8 && int(b[30])<<8|int(b[31]) == 8, "C05/SA/transform-reserved-zero-and-lengths")
}

// C12 for the header: decode -> encode reproduces every header octet (reserved flag
// bits included), so a second decode gives an equal header
func lemma_C12_Header(b []byte) {
	verifAssume(len(b) == 28 && b[24] == 0 && b[25] == 0 && b[26] == 0 && b[27] == 28)
	h, err := ParseHeader(b)
	if err != nil {
		return
	}
	b2, err2 := h.Marshal()
	verifAssert(err2 == nil && len(b2) == 28, "C12/Header/re-encodes")
	verifAssert(b2[16] == b[16] && b2[17] == b[17] && b2[18] == b[18] && b2[19] == b[19], "C12/Header/next-version-exchange-flags-octets-identical")
	verifAssert(b2[20] == b[20] && b2[21] == b[21] && b2[22] == b[22] && b2[23] == b[23], "C12/Header/message-id-octets-identical")
	verifAssert(b2[24] == 0 && b2[25] == 0 && b2[26] == 0 && b2[27] == 28, "C12/Header/length-octets-identical")
	g, err3 := ParseHeader(b2)
	verifAssert(err3 == nil && g.InitiatorSPI == h.InitiatorSPI && g.ResponderSPI == h.ResponderSPI && g.Flags == h.Flags && g.MessageID == h.MessageID && g.ExchangeType == h.ExchangeType && g.NextPayload == h.NextPayload && g.MajorVersion == h.MajorVersion && g.MinorVersion == h.MinorVersion, "C12/Header/second-decode-gives-an-equal-header")
}

// two TLV attributes in one SA payload: each value is recovered (C03) and survives a
// re-encoding (C12)
//
//verif:bounded one proposal with two transforms carrying TLV attributes
//verif:maxlen v1=1000 v2=1000
//verif:unroll (*message.SecurityAssociation).Marshal#loop1 2 assert
//verif:unroll (*message.SecurityAssociation).Marshal#loop2 3 assert
//verif:unroll (*message.SecurityAssociation).Unmarshal#loop1 2 assert
//verif:unroll (*message.SecurityAssociation).Unmarshal#loop2 3 assert
func lemma_C03_SA_two_tlv(num, proto uint8, id1, at1 uint16, v1 []byte, id2, at2 uint16, v2 []byte) {
	verifAssume(at1 < 0x8000 && at2 < 0x8000 && len(v1) >= 1 && len(v1) <= 1000 && len(v2) >= 1 && len(v2) <= 1000)
	n1, n2 := len(v1), len(v2)
	total := 8 + 12 + n1 + 12 + n2
	b := make([]byte, total)
	b[0], b[1], b[2], b[3], b[4], b[5], b[6], b[7] = 0, 0, byte(total>>8), byte(total), num, proto, 0, 2
	o := 8
	b[o], b[o+1], b[o+2], b[o+3], b[o+4], b[o+5], b[o+6], b[o+7] = 3, 0, byte((12+n1)>>8), byte(12+n1), 2, 0, byte(id1>>8), byte(id1)
	b[o+8], b[o+9], b[o+10], b[o+11] = byte(at1>>8), byte(at1), byte(n1>>8), byte(n1)
	copy(b[o+12:], v1)
	o = 20 + n1
	b[o], b[o+1], b[o+2], b[o+3], b[o+4], b[o+5], b[o+6], b[o+7] = 0, 0, byte((12+n2)>>8), byte(12+n2), 2, 0, byte(id2>>8), byte(id2)
	b[o+8], b[o+9], b[o+10], b[o+11] = byte(at2>>8), byte(at2), byte(n2>>8), byte(n2)
	copy(b[o+12:], v2)
	y := new(SecurityAssociation)
	verifAssert(y.Unmarshal(b) == nil && len(y.Proposals) == 1 && len(y.Proposals[0].PseudorandomFunction) == 2, "C05/SA/two-tlv-transforms-accepted")
	t1, t2 := y.Proposals[0].PseudorandomFunction[0], y.Proposals[0].PseudorandomFunction[1]
	verifAssert(t1.TransformID == id1 && t1.AttributeType == at1 && verifBytesEq(t1.VariableLengthAttributeValue, v1), "C03/SA/first-tlv-value-recovered")
	verifAssert(t2.TransformID == id2 && t2.AttributeType == at2 && verifBytesEq(t2.VariableLengthAttributeValue, v2), "C03/SA/second-tlv-value-recovered")
	verifAssert(verifBytesEq(t1.VariableLengthAttributeValue, v1) && verifBytesEq(t2.VariableLengthAttributeValue, v2), "C12/SA/tlv-values-of-a-canonical-payload-are-kept")
	verifAssert(verifDisjoint(t1.VariableLengthAttributeValue, t2.VariableLengthAttributeValue), "C20/SA/tlv-values-have-their-own-storage")
	b2, err := y.Marshal()
	verifAssert(err == nil && len(b2) == total, "C12/SA/two-tlv-re-encodes-to-the-same-length")
}
