//go:build verif

package message

// C13: what one iteration of the payload-chain walker does with a payload of a type
// the library does not implement.  The predicate relates the state at the loop head
// (suffix _h) with the state at the end of the same iteration, and is proved for
// every iteration, i.e. for every position in the chain:
//   - a critical unsupported payload never lets the iteration complete (the only way
//     out is the error return);
//   - a non-critical one leaves the container untouched and continues with exactly
//     (next type = octet 0, rest = bytes after the stated payload length) - the state
//     from which the same message without that payload would be decoded.
//
//verif:step (*message.IKEPayloadContainer).Decode loop1
func step_C13_unsupported(container *IKEPayloadContainer, container_h IKEPayloadContainer, b_h []byte, nextPayload_h uint8, b []byte, nextPayload uint8) bool {
	if nextPayload_h >= 33 && nextPayload_h <= 48 {
		return true
	}
	if len(b_h) < 4 {
		return false // the walker must have returned an error
	}
	if b_h[1]&0x80 != 0 {
		return false // critical: must have been rejected
	}
	plen := int(b_h[2])<<8 | int(b_h[3])
	if plen < 4 || plen > len(b_h) {
		return false
	}
	return nextPayload == b_h[0] && verifSameSlice(b, b_h[plen:]) && verifSamePayloads(*container, container_h)
}

func verifSamePayloads(a, b IKEPayloadContainer) bool {
	return len(a) == len(b) && (len(a) == 0 || &a[0] == &b[0])
}

// The iteration's progress for implemented payload types: exactly one element is
// appended, the cursor advances by the stated length, and the critical flag (bit 7
// of octet 1) plays no role.
//
//verif:step (*message.IKEPayloadContainer).Decode loop1
func step_C13_supported(container *IKEPayloadContainer, container_h IKEPayloadContainer, b_h []byte, nextPayload_h uint8, b []byte, nextPayload uint8) bool {
	if nextPayload_h < 33 || nextPayload_h > 48 {
		return true
	}
	if len(b_h) < 4 {
		return false
	}
	plen := int(b_h[2])<<8 | int(b_h[3])
	if plen < 4 || plen > len(b_h) {
		return false
	}
	return nextPayload == b_h[0] && verifSameSlice(b, b_h[plen:]) && len(*container) == len(container_h)+1
}

// The other half of "skipped": an iteration that meets a well-formed unsupported
// payload may give the walk up (return from inside the loop) only when the critical
// bit is set - for no type code outside 33..48 is a non-critical payload a reason to
// reject the message.  Checked on every edge that leaves the loop from inside its body.
//
//verif:exit (*message.IKEPayloadContainer).Decode loop1
func exit_C13_only_critical_unsupported_rejects(b_h []byte, nextPayload_h uint8) bool {
	if nextPayload_h >= 33 && nextPayload_h <= 48 {
		return true
	}
	if len(b_h) < 4 {
		return true
	}
	plen := int(b_h[2])<<8 | int(b_h[3])
	if plen < 4 || plen > len(b_h) {
		return true
	}
	return b_h[1]&0x80 != 0
}

// the steps are obligations of the chain walker; this lemma makes C13 run it
func lemma_C13_chain(next uint8, b []byte) {
	var c IKEPayloadContainer
	_ = contract_ChainDecode(&c, next, b)
}

// The two clauses together, on one chain shape: an implemented payload whose critical
// flag is SET (must be ignored) followed by a NON-critical unsupported payload (must
// still be skipped) followed by another implemented payload.  Nothing an earlier
// payload's flag did may reach the decision about a later one: the per-iteration steps
// above quantify over the loop-head state of the walker's own variables; this lemma pins
// the history-free behaviour end to end (seeded change C13-5: a header object reused
// across iterations whose Critical field is only ever set).
//
//verif:bounded chain of exactly three payloads (one-octet Nonce with any octet 1 incl. critical / unsupported non-critical, any type code, three-octet body / one-octet Nonce)
//verif:unroll (*message.IKEPayloadContainer).Decode#loop1 4 assert
func lemma_C13_earlier_flag_does_not_stick(octet1a, typ, octet1u, x1, x2, u1, u2, u3 uint8) {
	verifAssume((typ >= 1 && typ <= 32) || typ >= 49)
	b := make([]byte, 17)
	b[0], b[1], b[2], b[3], b[4] = typ, octet1a|0x80, 0, 5, x1
	b[5], b[6], b[7], b[8], b[9], b[10], b[11] = uint8(TypeNiNr), octet1u&0x7f, 0, 7, u1, u2, u3
	b[12], b[13], b[14], b[15], b[16] = 0, 0, 0, 5, x2
	var c IKEPayloadContainer
	verifAssert(c.Decode(uint8(TypeNiNr), b) == nil, "C13/Chain/non-critical-unsupported-skipped-after-a-critical-flagged-implemented-payload")
	verifAssert(len(c) == 2, "C13/Chain/message-decodes-as-the-same-message-without-the-unsupported-payload")
	q1, ok1 := c[0].(*Nonce)
	q2, ok2 := c[1].(*Nonce)
	verifAssert(ok1 && ok2 && len(q1.NonceData) == 1 && q1.NonceData[0] == x1 && len(q2.NonceData) == 1 && q2.NonceData[0] == x2, "C13/Chain/neighbours-of-the-skipped-payload-recovered")
}
