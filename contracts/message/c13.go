//go:build verif

package message

// C13: what one iteration of the payload-chain walker does with a payload of a type
// the library does not implement.  The predicate relates the state at the loop head
// (suffix _h) with the state at the end of the same iteration, and is proved for
// every iteration, i.e. for every position in the chain:
//   - a critical unsupported payload never lets the iteration complete (the only way
//     out is the error return);
//   - a non-critical one leaves the container untouched and continues with exactly
//     (next type = octet 0, rest = bytes after the stated payload length) - the state
//     from which the same message without that payload would be decoded.
//
//verif:step (*message.IKEPayloadContainer).Decode loop1
func step_C13_unsupported(container *IKEPayloadContainer, container_h IKEPayloadContainer, b_h []byte, nextPayload_h uint8, b []byte, nextPayload uint8) bool {
	if nextPayload_h >= 33 && nextPayload_h <= 48 {
		return true
	}
	if len(b_h) < 4 {
		return false // the walker must have returned an error
	}
	if b_h[1]&0x80 != 0 {
		return false // critical: must have been rejected
	}
	plen := int(b_h[2])<<8 | int(b_h[3])
	if plen < 4 || plen > len(b_h) {
		return false
	}
	return nextPayload == b_h[0] && verifSameSlice(b, b_h[plen:]) && verifSamePayloads(*container, container_h)
}

func verifSamePayloads(a, b IKEPayloadContainer) bool {
	return len(a) == len(b) && (len(a) == 0 || &a[0] == &b[0])
}

// The iteration's progress for implemented payload types: exactly one element is
// appended, the cursor advances by the stated length, and the critical flag (bit 7
// of octet 1) plays no role.
//
//verif:step (*message.IKEPayloadContainer).Decode loop1
func step_C13_supported(container *IKEPayloadContainer, container_h IKEPayloadContainer, b_h []byte, nextPayload_h uint8, b []byte, nextPayload uint8) bool {
	if nextPayload_h < 33 || nextPayload_h > 48 {
		return true
	}
	if len(b_h) < 4 {
		return false
	}
	plen := int(b_h[2])<<8 | int(b_h[3])
	if plen < 4 || plen > len(b_h) {
		return false
	}
	return nextPayload == b_h[0] && verifSameSlice(b, b_h[plen:]) && len(*container) == len(container_h)+1
}

// The other half of "skipped": an iteration that meets a well-formed unsupported
// payload may give the walk up (return from inside the loop) only when the critical
// bit is set - for no type code outside 33..48 is a non-critical payload a reason to
// reject the message.  Checked on every edge that leaves the loop from inside its body.
//
//verif:exit (*message.IKEPayloadContainer).Decode loop1
func exit_C13_only_critical_unsupported_rejects(b_h []byte, nextPayload_h uint8) bool {
	if nextPayload_h >= 33 && nextPayload_h <= 48 {
		return true
	}
	if len(b_h) < 4 {
		return true
	}
	plen := int(b_h[2])<<8 | int(b_h[3])
	if plen < 4 || plen > len(b_h) {
		return true
	}
	return b_h[1]&0x80 != 0
}

// the steps are obligations of the chain walker; this lemma makes C13 run it
func lemma_C13_chain(next uint8, b []byte) {
	var c IKEPayloadContainer
	_ = contract_ChainDecode(&c, next, b)
}
