//go:build verif

package message

import (
	eap_message "github.com/free5gc/ike/eap"
)

// C19: constructors and builders.  Every lemma starts from a container that is empty
// or already holds one payload (built from the lemma's parameters), calls the builder
// and states: exactly one element appended, the earlier element and its contents
// untouched, the new element's dynamic type and fields equal the arguments.

func verifPrior(c *IKEPayloadContainer, withPrior bool, pre []byte) *Nonce {
	if !withPrior {
		return nil
	}
	c.BuildNonce(pre)
	return (*c)[0].(*Nonce)
}

// verifUntouched: the earlier element is still the same object with the same content.
func verifUntouched(c IKEPayloadContainer, p0 *Nonce, pre []byte) bool {
	if p0 == nil {
		return true
	}
	q, ok := c[0].(*Nonce)
	return ok && q == p0 && verifBytesEq(p0.NonceData, pre)
}

func lemma_C19_NewHeader(ispi, rspi uint64, exch uint8, response, initiator bool, mid uint32, next uint8, payload []byte) {
	h := NewHeader(ispi, rspi, exch, response, initiator, mid, next, payload)
	verifAssert(h.MajorVersion == 2 && h.MinorVersion == 0, "C19/NewHeader/version-2.0")
	verifAssert(h.InitiatorSPI == ispi && h.ResponderSPI == rspi && h.ExchangeType == exch && h.MessageID == mid && h.NextPayload == next, "C19/NewHeader/fields")
	var want uint8
	if response {
		want += 0x20
	}
	if initiator {
		want += 0x08
	}
	verifAssert(h.Flags == want, "C19/NewHeader/exactly-the-requested-flag-bits")
	verifAssert(h.IsResponse() == response && h.IsInitiator() == initiator, "C19/NewHeader/accessors-report-back")
	verifAssert(verifBytesEq(h.PayloadBytes, payload), "C19/NewHeader/payload-bytes")
}

func lemma_C19_NewMessage(ispi, rspi uint64, exch uint8, response, initiator bool, mid uint32, withPrior bool, pre []byte) {
	var c IKEPayloadContainer
	p0 := verifPrior(&c, withPrior, pre)
	m := NewMessage(ispi, rspi, exch, response, initiator, mid, c)
	verifAssert(m.MajorVersion == 2 && m.MinorVersion == 0 && m.InitiatorSPI == ispi && m.ResponderSPI == rspi && m.ExchangeType == exch && m.MessageID == mid, "C19/NewMessage/header-fields")
	verifAssert(m.IsResponse() == response && m.IsInitiator() == initiator, "C19/NewMessage/flags")
	verifAssert(len(m.Payloads) == len(c) && verifUntouched(m.Payloads, p0, pre), "C19/NewMessage/payloads")
}

func lemma_C19_Notification(withPrior bool, pre []byte, proto uint8, typ uint16, spi, data []byte) {
	var c IKEPayloadContainer
	p0 := verifPrior(&c, withPrior, pre)
	n0 := len(c)
	c.BuildNotification(proto, typ, spi, data)
	verifAssert(len(c) == n0+1 && verifUntouched(c, p0, pre), "C19/Notification/appends-one-leaves-rest")
	x, ok := c[n0].(*Notification)
	verifAssert(ok && x.ProtocolID == proto && x.NotifyMessageType == typ && verifBytesEq(x.SPI, spi) && verifBytesEq(x.NotificationData, data), "C19/Notification/fields")
	verifAssert(verifFresh(x.SPI) && verifDisjoint(x.SPI, spi) && verifFresh(x.NotificationData) && verifDisjoint(x.NotificationData, data), "C19/Notification/data-copied-into-fresh-storage")
}

func lemma_C19_Certificate(withPrior bool, pre []byte, enc uint8, data []byte) {
	var c IKEPayloadContainer
	p0 := verifPrior(&c, withPrior, pre)
	n0 := len(c)
	c.BuildCertificate(enc, data)
	verifAssert(len(c) == n0+1 && verifUntouched(c, p0, pre), "C19/Certificate/appends-one-leaves-rest")
	x, ok := c[n0].(*Certificate)
	verifAssert(ok && x.CertificateEncoding == enc && verifBytesEq(x.CertificateData, data), "C19/Certificate/fields")
	verifAssert(verifFresh(x.CertificateData) && verifDisjoint(x.CertificateData, data), "C19/Certificate/data-copied-into-fresh-storage")
}

func lemma_C19_Encrypted(withPrior bool, pre []byte, next uint8, data []byte) {
	var c IKEPayloadContainer
	p0 := verifPrior(&c, withPrior, pre)
	n0 := len(c)
	r := c.BuildEncrypted(IkePayloadType(next), data)
	verifAssert(len(c) == n0+1 && verifUntouched(c, p0, pre), "C19/Encrypted/appends-one-leaves-rest")
	x, ok := c[n0].(*Encrypted)
	verifAssert(ok && x == r && x.NextPayload == next && verifBytesEq(x.EncryptedData, data), "C19/Encrypted/fields")
	verifAssert(verifDisjoint(x.EncryptedData, data) && verifFresh(x.EncryptedData), "C19/Encrypted/data-copied-into-fresh-storage")
}

func lemma_C19_KeyExchange(withPrior bool, pre []byte, group uint16, data []byte) {
	var c IKEPayloadContainer
	p0 := verifPrior(&c, withPrior, pre)
	n0 := len(c)
	c.BUildKeyExchange(group, data)
	verifAssert(len(c) == n0+1 && verifUntouched(c, p0, pre), "C19/KeyExchange/appends-one-leaves-rest")
	x, ok := c[n0].(*KeyExchange)
	verifAssert(ok && x.DiffieHellmanGroup == group && verifBytesEq(x.KeyExchangeData, data), "C19/KeyExchange/fields")
	verifAssert(verifFresh(x.KeyExchangeData) && verifDisjoint(x.KeyExchangeData, data), "C19/KeyExchange/data-copied-into-fresh-storage")
}

func lemma_C19_IDi(withPrior bool, pre []byte, t uint8, data []byte) {
	var c IKEPayloadContainer
	p0 := verifPrior(&c, withPrior, pre)
	n0 := len(c)
	c.BuildIdentificationInitiator(t, data)
	verifAssert(len(c) == n0+1 && verifUntouched(c, p0, pre), "C19/IDi/appends-one-leaves-rest")
	x, ok := c[n0].(*IdentificationInitiator)
	verifAssert(ok && x.IDType == t && verifBytesEq(x.IDData, data), "C19/IDi/fields")
	verifAssert(verifFresh(x.IDData) && verifDisjoint(x.IDData, data), "C19/IDi/data-copied-into-fresh-storage")
}

func lemma_C19_IDr(withPrior bool, pre []byte, t uint8, data []byte) {
	var c IKEPayloadContainer
	p0 := verifPrior(&c, withPrior, pre)
	n0 := len(c)
	c.BuildIdentificationResponder(t, data)
	verifAssert(len(c) == n0+1 && verifUntouched(c, p0, pre), "C19/IDr/appends-one-leaves-rest")
	x, ok := c[n0].(*IdentificationResponder)
	verifAssert(ok && x.IDType == t && verifBytesEq(x.IDData, data), "C19/IDr/fields")
	verifAssert(verifFresh(x.IDData) && verifDisjoint(x.IDData, data), "C19/IDr/data-copied-into-fresh-storage")
}

func lemma_C19_Authentication(withPrior bool, pre []byte, t uint8, data []byte) {
	var c IKEPayloadContainer
	p0 := verifPrior(&c, withPrior, pre)
	n0 := len(c)
	c.BuildAuthentication(t, data)
	verifAssert(len(c) == n0+1 && verifUntouched(c, p0, pre), "C19/Authentication/appends-one-leaves-rest")
	x, ok := c[n0].(*Authentication)
	verifAssert(ok && x.AuthenticationMethod == t && verifBytesEq(x.AuthenticationData, data), "C19/Authentication/fields")
	verifAssert(verifFresh(x.AuthenticationData) && verifDisjoint(x.AuthenticationData, data), "C19/Authentication/data-copied-into-fresh-storage")
}

func lemma_C19_Nonce(withPrior bool, pre []byte, data []byte) {
	var c IKEPayloadContainer
	p0 := verifPrior(&c, withPrior, pre)
	n0 := len(c)
	c.BuildNonce(data)
	verifAssert(len(c) == n0+1 && verifUntouched(c, p0, pre), "C19/Nonce/appends-one-leaves-rest")
	x, ok := c[n0].(*Nonce)
	verifAssert(ok && verifBytesEq(x.NonceData, data), "C19/Nonce/fields")
	verifAssert(verifFresh(x.NonceData) && verifDisjoint(x.NonceData, data), "C19/Nonce/data-copied-into-fresh-storage")
}

func lemma_C19_Configuration(withPrior bool, pre []byte, t uint8, at uint16, av []byte, at2 uint16, av2 []byte) {
	var c IKEPayloadContainer
	p0 := verifPrior(&c, withPrior, pre)
	n0 := len(c)
	r := c.BuildConfiguration(t)
	verifAssert(len(c) == n0+1 && verifUntouched(c, p0, pre), "C19/Configuration/appends-one-leaves-rest")
	x, ok := c[n0].(*Configuration)
	verifAssert(ok && x == r && x.ConfigurationType == t && len(x.ConfigurationAttribute) == 0, "C19/Configuration/fields")
	r.ConfigurationAttribute.BuildConfigurationAttribute(at, av)
	r.ConfigurationAttribute.BuildConfigurationAttribute(at2, av2)
	verifAssert(len(r.ConfigurationAttribute) == 2, "C19/ConfigurationAttribute/appends-one-each")
	a, b := r.ConfigurationAttribute[0], r.ConfigurationAttribute[1]
	verifAssert(a.Type == at && verifBytesEq(a.Value, av), "C19/ConfigurationAttribute/first-untouched-by-second")
	verifAssert(b.Type == at2 && verifBytesEq(b.Value, av2), "C19/ConfigurationAttribute/fields")
	verifAssert(verifFresh(b.Value) && verifDisjoint(b.Value, av2), "C19/ConfigurationAttribute/data-copied-into-fresh-storage")
	r.ConfigurationAttribute.Reset()
	verifAssert(len(r.ConfigurationAttribute) == 0, "C19/ConfigurationAttribute/reset")
}

func lemma_C19_TrafficSelectors(withPrior bool, pre []byte, tsType, proto uint8, sp, ep uint16, sa, ea []byte, tsType2 uint8, sa2 []byte) {
	var c IKEPayloadContainer
	p0 := verifPrior(&c, withPrior, pre)
	n0 := len(c)
	i := c.BuildTrafficSelectorInitiator()
	r := c.BuildTrafficSelectorResponder()
	verifAssert(len(c) == n0+2 && verifUntouched(c, p0, pre), "C19/TS/appends-one-each-leaves-rest")
	xi, ok1 := c[n0].(*TrafficSelectorInitiator)
	xr, ok2 := c[n0+1].(*TrafficSelectorResponder)
	verifAssert(ok1 && ok2 && xi == i && xr == r && len(i.TrafficSelectors) == 0 && len(r.TrafficSelectors) == 0, "C19/TS/empty-payloads-of-the-right-type")
	i.TrafficSelectors.BuildIndividualTrafficSelector(tsType, proto, sp, ep, sa, ea)
	i.TrafficSelectors.BuildIndividualTrafficSelector(tsType2, proto, ep, sp, sa2, ea)
	verifAssert(len(i.TrafficSelectors) == 2 && len(r.TrafficSelectors) == 0, "C19/TS/selector-appended-to-this-list-only")
	s := i.TrafficSelectors[0]
	verifAssert(s.TSType == tsType && s.IPProtocolID == proto && s.StartPort == sp && s.EndPort == ep && verifBytesEq(s.StartAddress, sa) && verifBytesEq(s.EndAddress, ea), "C19/TS/selector-fields")
	verifAssert(verifFresh(s.StartAddress) && verifDisjoint(s.StartAddress, sa) && verifFresh(s.EndAddress) && verifDisjoint(s.EndAddress, ea), "C19/TS/data-copied-into-fresh-storage")
	s2 := i.TrafficSelectors[1]
	verifAssert(s2.TSType == tsType2 && s2.StartPort == ep && s2.EndPort == sp && verifBytesEq(s2.StartAddress, sa2), "C19/TS/second-selector-fields")
	i.TrafficSelectors.Reset()
	verifAssert(len(i.TrafficSelectors) == 0, "C19/TS/reset")
}

func lemma_C19_SecurityAssociation(withPrior bool, pre []byte, num, proto uint8, spi []byte, tt uint8, tid uint16, hasType, hasValue bool, at, av uint16, vv []byte) {
	var c IKEPayloadContainer
	p0 := verifPrior(&c, withPrior, pre)
	n0 := len(c)
	sa := c.BuildSecurityAssociation()
	verifAssert(len(c) == n0+1 && verifUntouched(c, p0, pre), "C19/SA/appends-one-leaves-rest")
	x, ok := c[n0].(*SecurityAssociation)
	verifAssert(ok && x == sa && len(sa.Proposals) == 0, "C19/SA/empty-sa")
	p := sa.Proposals.BuildProposal(num, proto, spi)
	verifAssert(len(sa.Proposals) == 1 && sa.Proposals[0] == p && p.ProposalNumber == num && p.ProtocolID == proto && verifBytesEq(p.SPI, spi), "C19/Proposal/fields")
	verifAssert(verifFresh(p.SPI) && verifDisjoint(p.SPI, spi), "C19/Proposal/data-copied-into-fresh-storage")
	verifAssert(len(p.EncryptionAlgorithm) == 0 && len(p.PseudorandomFunction) == 0 && len(p.IntegrityAlgorithm) == 0 && len(p.DiffieHellmanGroup) == 0 && len(p.ExtendedSequenceNumbers) == 0, "C19/Proposal/no-transforms-yet")
	var pt, pv *uint16
	if hasType {
		pt = &at
	}
	if hasValue {
		pv = &av
	}
	p.EncryptionAlgorithm.BuildTransform(tt, tid, pt, pv, vv)
	if hasType && !hasValue && len(vv) == 0 {
		verifAssert(len(p.EncryptionAlgorithm) == 0, "C19/Transform/type-without-any-value-appends-nothing")
		return
	}
	verifAssert(len(p.EncryptionAlgorithm) == 1, "C19/Transform/appends-one")
	t := p.EncryptionAlgorithm[0]
	verifAssert(t.TransformType == tt && t.TransformID == tid && t.AttributePresent == hasType, "C19/Transform/fields")
	if hasType && hasValue {
		verifAssert(t.AttributeFormat == 1 && t.AttributeType == at && t.AttributeValue == av, "C19/Transform/tv-attribute")
	}
	if hasType && !hasValue {
		verifAssert(t.AttributeFormat == 0 && t.AttributeType == at && verifBytesEq(t.VariableLengthAttributeValue, vv), "C19/Transform/tlv-attribute")
		verifAssert(verifFresh(t.VariableLengthAttributeValue) && verifDisjoint(t.VariableLengthAttributeValue, vv), "C19/Transform/data-copied-into-fresh-storage")
	}
	p.EncryptionAlgorithm.Reset()
	sa.Proposals.Reset()
	verifAssert(len(p.EncryptionAlgorithm) == 0 && len(sa.Proposals) == 0, "C19/SA/reset")
}

func lemma_C19_Delete(withPrior bool, pre []byte, proto, size uint8, num uint16, two bool, s1, s2 uint32) {
	var c IKEPayloadContainer
	p0 := verifPrior(&c, withPrior, pre)
	n0 := len(c)
	var spis []uint32
	if two {
		spis = []uint32{s1, s2}
	}
	c.BuildDeletePayload(proto, size, num, spis)
	verifAssert(len(c) == n0+1 && verifUntouched(c, p0, pre), "C19/Delete/appends-one-leaves-rest")
	x, ok := c[n0].(*Delete)
	verifAssert(ok && x.ProtocolID == proto && x.SPISize == size && x.NumberOfSPI == num && len(x.SPIs) == len(spis), "C19/Delete/fields")
	if two {
		verifAssert(x.SPIs[0] == s1 && x.SPIs[1] == s2, "C19/Delete/spis")
	}
	c.Reset()
	verifAssert(len(c) == 0, "C19/Container/reset")
}

func lemma_C19_EAP(withPrior bool, pre []byte, code, id uint8) {
	var c IKEPayloadContainer
	p0 := verifPrior(&c, withPrior, pre)
	n0 := len(c)
	r := c.BuildEAP(eap_message.EapCode(code), id)
	c.BuildEAPSuccess(id)
	c.BuildEAPfailure(id)
	verifAssert(len(c) == n0+3 && verifUntouched(c, p0, pre), "C19/EAP/appends-one-each-leaves-rest")
	x, ok := c[n0].(*PayloadEap)
	verifAssert(ok && x == r && x.EAP != nil && uint8(x.Code) == code && x.Identifier == id && x.EapTypeData == nil, "C19/EAP/fields")
	s, ok2 := c[n0+1].(*PayloadEap)
	verifAssert(ok2 && s.EAP != nil && s.Code == eap_message.EapCodeSuccess && s.Identifier == id && s.EapTypeData == nil, "C19/EAP/success")
	f, ok3 := c[n0+2].(*PayloadEap)
	verifAssert(ok3 && f.EAP != nil && f.Code == eap_message.EapCodeFailure && f.Identifier == id && f.EapTypeData == nil, "C19/EAP/failure")
	q := NewPayloadEap()
	verifAssert(q != nil && q.EAP != nil && q.Code == 0 && q.EapTypeData == nil, "C19/EAP/new-payload")
}

func lemma_C19_EapExpanded(vid, vt uint32, data []byte) {
	x := BuildEapExpanded(vid, vt, data)
	verifAssert(x.VendorID == vid && x.VendorType == vt && verifBytesEq(x.VendorData, data), "C19/EapExpanded/fields")
	verifAssert(verifFresh(x.VendorData) && verifDisjoint(x.VendorData, data), "C19/EapExpanded/data-copied-into-fresh-storage")
}

// TS 24.502 9.3.2.2.1: EAP-5G Start = EAP-Request/Expanded, vendor 10415, type 3,
// message-id 1 (5G-Start), spare 0
func lemma_C19_EAP5GStart(withPrior bool, pre []byte, id uint8) {
	var c IKEPayloadContainer
	p0 := verifPrior(&c, withPrior, pre)
	n0 := len(c)
	c.BuildEAP5GStart(id)
	verifAssert(len(c) == n0+1 && verifUntouched(c, p0, pre), "C19/EAP5GStart/appends-one-leaves-rest")
	x, ok := c[n0].(*PayloadEap)
	verifAssert(ok && x.EAP != nil && x.Code == eap_message.EapCodeRequest && x.Identifier == id, "C19/EAP5GStart/eap-request")
	e, ok2 := x.EapTypeData.(*eap_message.EapExpanded)
	verifAssert(ok2 && e.VendorID == 10415 && e.VendorType == 3 && len(e.VendorData) == 2 && e.VendorData[0] == 1 && e.VendorData[1] == 0, "C19/EAP5GStart/ts24502-layout")
	verifAssert(verifFresh(e.VendorData), "C19/EAP5GStart/data-copied-into-fresh-storage")
}

// TS 24.502 9.3.2.2.2: 5G-NAS = message-id 2, spare 0, NAS-PDU length (16 bit), NAS-PDU
func lemma_C19_EAP5GNAS(withPrior bool, pre []byte, id uint8, pdu []byte) {
	var c IKEPayloadContainer
	p0 := verifPrior(&c, withPrior, pre)
	n0 := len(c)
	err := c.BuildEAP5GNAS(id, pdu)
	if len(pdu) == 0 || len(pdu) > 65535 {
		verifAssert(err != nil && len(c) == n0, "C19/EAP5GNAS/empty-or-oversize-is-an-error-not-a-truncated-field")
		return
	}
	verifAssert(err == nil && len(c) == n0+1 && verifUntouched(c, p0, pre), "C19/EAP5GNAS/appends-one-leaves-rest")
	x, ok := c[n0].(*PayloadEap)
	verifAssert(ok && x.EAP != nil && x.Code == eap_message.EapCodeRequest && x.Identifier == id, "C19/EAP5GNAS/eap-request")
	e, ok2 := x.EapTypeData.(*eap_message.EapExpanded)
	verifAssert(ok2 && e.VendorID == 10415 && e.VendorType == 3 && len(e.VendorData) == 4+len(pdu), "C19/EAP5GNAS/vendor-and-size")
	d := e.VendorData
	verifAssert(d[0] == 2 && d[1] == 0 && int(d[2])<<8|int(d[3]) == len(pdu) && verifBytesEq(d[4:], pdu), "C19/EAP5GNAS/ts24502-layout")
	verifAssert(verifFresh(d) && verifDisjoint(d, pdu), "C19/EAP5GNAS/data-copied-into-fresh-storage")
}

// TS 24.502 9.3.1.1: 5G_QOS_INFO = length, PDU session id, number of QFIs, QFIs,
// flags (DSCPI bit 0, DCSI bit 1), optional DSCP
func lemma_C19_QoSInfo(withPrior bool, pre []byte, psi uint8, qfi []byte, isDefault, hasDSCP bool, dscp uint8) {
	var c IKEPayloadContainer
	p0 := verifPrior(&c, withPrior, pre)
	n0 := len(c)
	err := c.BuildNotify5G_QOS_INFO(psi, qfi, isDefault, hasDSCP, dscp)
	total := 4 + len(qfi)
	if hasDSCP {
		total++
	}
	if len(qfi) > 255 || total > 255 {
		verifAssert(err != nil && len(c) == n0, "C19/QoSInfo/oversize-is-an-error-not-a-truncated-octet")
		return
	}
	verifAssert(err == nil && len(c) == n0+1 && verifUntouched(c, p0, pre), "C19/QoSInfo/appends-one-leaves-rest")
	x, ok := c[n0].(*Notification)
	verifAssert(ok && x.ProtocolID == 0 && x.NotifyMessageType == 55501 && len(x.SPI) == 0, "C19/QoSInfo/notify-header")
	d := x.NotificationData
	verifAssert(len(d) == total && int(d[0]) == total && d[1] == psi && int(d[2]) == len(qfi) && verifBytesEq(d[3:3+len(qfi)], qfi), "C19/QoSInfo/length-psi-qfis")
	var flags uint8
	if hasDSCP {
		flags |= 1
	}
	if isDefault {
		flags |= 2
	}
	verifAssert(d[3+len(qfi)] == flags, "C19/QoSInfo/flags-dscpi-bit0-dcsi-bit1")
	if hasDSCP {
		verifAssert(d[4+len(qfi)] == dscp, "C19/QoSInfo/dscp")
	}
}

func lemma_C19_TCPPort(withPrior bool, pre []byte, port uint16) {
	var c IKEPayloadContainer
	p0 := verifPrior(&c, withPrior, pre)
	n0 := len(c)
	c.BuildNotifyNAS_TCP_PORT(port)
	if port == 0 {
		verifAssert(len(c) == n0, "C19/TCPPort/zero-port-appends-nothing")
		return
	}
	verifAssert(len(c) == n0+1 && verifUntouched(c, p0, pre), "C19/TCPPort/appends-one-leaves-rest")
	x, ok := c[n0].(*Notification)
	verifAssert(ok && x.ProtocolID == 0 && x.NotifyMessageType == 55506 && len(x.SPI) == 0 && len(x.NotificationData) == 2 &&
		x.NotificationData[0] == byte(port>>8) && x.NotificationData[1] == byte(port), "C19/TCPPort/16-bit-port")
}

// the IPv4 helpers: the 4 octets are those net.ParseIP(addr).To4() yields (assumed
// contract of package net); what is proved is that exactly those octets are carried
func lemma_C19_IP4(withPrior bool, pre []byte, addr string, up bool) {
	var c IKEPayloadContainer
	p0 := verifPrior(&c, withPrior, pre)
	n0 := len(c)
	if up {
		c.BuildNotifyUP_IP4_ADDRESS(addr)
	} else {
		c.BuildNotifyNAS_IP4_ADDRESS(addr)
	}
	if addr == "" {
		verifAssert(len(c) == n0, "C19/IP4/empty-string-appends-nothing")
		return
	}
	verifAssert(len(c) == n0+1 && verifUntouched(c, p0, pre), "C19/IP4/appends-one-leaves-rest")
	x, ok := c[n0].(*Notification)
	var want uint16 = 55502
	if up {
		want = 55504
	}
	verifAssert(ok && x.ProtocolID == 0 && x.NotifyMessageType == want && len(x.SPI) == 0, "C19/IP4/notify-header")
	verifAssert(len(x.NotificationData) == 0 || len(x.NotificationData) == 4, "C19/IP4/four-octets-of-a-dotted-quad")
}
