//go:build verif

package message

// Contract of the payload-chain walker, as far as callers need it for safety:
// on an empty container it returns with every element non-nil.  (Functional
// clauses are in c03.go / c13.go.)
//
//verif:contract (*message.IKEPayloadContainer).Decode
func contract_ChainDecode(container *IKEPayloadContainer, nextPayload uint8, b []byte) (err error) {
	verifRequires(container != nil && len(*container) == 0)
	err = container.Decode(nextPayload, b)
	i := verifAny()
	verifEnsures(!(0 <= i && i < len(*container)) || verifPayloadNonNil((*container)[i]), "elements-non-nil")
	return
}

// verifPayloadNonNil: p is one of the 16 payload implementations and its pointer is
// not nil.
func verifPayloadNonNil(p IKEPayload) bool {
	switch x := p.(type) {
	case *SecurityAssociation:
		return x != nil
	case *KeyExchange:
		return x != nil
	case *IdentificationInitiator:
		return x != nil
	case *IdentificationResponder:
		return x != nil
	case *Certificate:
		return x != nil
	case *CertificateRequest:
		return x != nil
	case *Authentication:
		return x != nil
	case *Nonce:
		return x != nil
	case *Notification:
		return x != nil
	case *Delete:
		return x != nil
	case *VendorID:
		return x != nil
	case *TrafficSelectorInitiator:
		return x != nil
	case *TrafficSelectorResponder:
		return x != nil
	case *Encrypted:
		return x != nil
	case *Configuration:
		return x != nil
	case *PayloadEap:
		return x != nil && x.EAP != nil
	}
	return false
}

//verif:invariant (*message.IKEPayloadContainer).Decode loop1
func inv_ChainDecode_nonnil(container *IKEPayloadContainer) bool {
	i := verifAny()
	return !(0 <= i && i < len(*container)) || verifPayloadNonNil((*container)[i])
}
