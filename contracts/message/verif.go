//go:build verif

package message

// Intrinsics recognised by the verifier.  They are executable so that lemma
// functions double as replay drivers (a failed verifAssert panics with its label;
// a failed verifAssume / verifRequires skips the case).

type verifSkip struct{}

func verifAssert(c bool, label string) {
	if !c {
		panic("verifAssert: " + label)
	}
}

func verifAssume(c bool) {
	if !c {
		panic(verifSkip{})
	}
}

func verifRequires(c bool) {
	if !c {
		panic(verifSkip{})
	}
}

func verifEnsures(c bool, label string) {
	if !c {
		panic("verifEnsures: " + label)
	}
}

// verifAny is a universally quantified int for the verifier; at run time it is an
// arbitrary representative.
func verifAny() int { return 0 }

func verifCover(label string) {}
