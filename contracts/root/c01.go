//go:build verif

package ike

import (
	"github.com/free5gc/ike/message"
	"github.com/free5gc/ike/security"
	"github.com/free5gc/ike/security/encr"
)

func verifMsg1(ispi, rspi uint64, major, minor, exch, flags uint8, mid uint32, data []byte) *message.IKEMessage {
	m := new(message.IKEMessage)
	m.IKEHeader = &message.IKEHeader{InitiatorSPI: ispi, ResponderSPI: rspi, MajorVersion: major, MinorVersion: minor, ExchangeType: exch, Flags: flags, MessageID: mid}
	m.Payloads.BuildNonce(data)
	return m
}

func verifSameHeader(d *message.IKEMessage, ispi, rspi uint64, major, minor, exch, flags uint8, mid uint32) bool {
	return d != nil && d.IKEHeader != nil && d.InitiatorSPI == ispi && d.ResponderSPI == rspi && d.MajorVersion == major && d.MinorVersion == minor && d.ExchangeType == exch && d.Flags == flags && d.MessageID == mid
}

// history: whatever earlier operations did to an SA object, what they can have changed
// is the buffered input of its four long-lived hash objects (C17 proves that nothing
// else changes); junk stands for that
func verifHistory(sa *security.IKESAKey, junk []byte) {
	sa.Integ_i.Write(junk)
	sa.Integ_r.Write(junk)
}

// no SA keys: the same entry points are plain encode and decode
//
//verif:bounded payload list of exactly one payload (Nonce, any data)
//verif:maxlen data=60000
//verif:unroll (*message.IKEPayloadContainer).Encode#loop1 2 assert
//verif:unroll (*message.IKEPayloadContainer).Decode#loop1 2 assert
func lemma_C01_nokeys(role, withHeader bool, ispi, rspi uint64, exch, flags uint8, mid uint32, data []byte) {
	m := verifMsg1(ispi, rspi, 2, 0, exch, flags, mid, data)
	out, err := EncodeEncrypt(m, nil, message.Role(role))
	ref, err0 := verifMsg1(ispi, rspi, 2, 0, exch, flags, mid, data).Encode()
	verifAssert(err == nil && err0 == nil && verifBytesEq(out, ref), "C01/no-keys-protect-is-plain-encode")
	var h *message.IKEHeader
	if withHeader {
		h, _ = message.ParseHeader(out)
	}
	d, err2 := DecodeDecrypt(out, h, nil, message.Role(role))
	verifAssert(err2 == nil && verifSameHeader(d, ispi, rspi, 2, 0, exch, flags, mid) && len(d.Payloads) == 1, "C01/no-keys-unprotect-is-plain-decode")
	q, ok := d.Payloads[0].(*message.Nonce)
	verifAssert(ok && verifBytesEq(q.NonceData, data), "C01/no-keys-payload-recovered")
}

// C17: protecting / unprotecting changes nothing in an SA object but the buffered input
// of its hash objects: the object slots and the cipher objects' fields are what they
// were - on success and on every error return (any received bytes, any SK body:
// genuine, forged or malformed).  By induction over the history of operations every
// later operation therefore starts from "same keys, arbitrary buffered hash input",
// which is the state the other lemmas (junk written into the hash objects) start from.
//
//verif:bytes
//verif:maxlen data=60000
//verif:unroll (*message.IKEPayloadContainer).Encode#loop1 2 assert
//verif:unroll security/lib.PKCS7Padding#loop1 16 assert
//verif:unroll ike.decryptMsg#loop1 2 assert
//verif:summary (*message.IKEPayloadContainer).Decode
func lemma_C17_state_preserved(role bool, integSel, encrSel uint8, ai, ar, ei, er []byte, data, msg, skBody []byte, next uint8) {
	sa := verifSA(integSel, encrSel, ai, ar, ei, er)
	ci, cr := sa.Encr_i.(*encr.EncrAesCbcCrypto), sa.Encr_r.(*encr.EncrAesCbcCrypto)
	bi, br, ii, ir := ci.Block, cr.Block, sa.Integ_i, sa.Integ_r
	m := verifMsg1(1, 2, 2, 0, 37, 8, 3, data)
	// frame: protect writes to nothing that existed before the call except the message
	// object it was handed (payload list and header) and the buffered input of the hash
	// objects - in particular to no field of the SA or of its cipher objects, whether
	// that field exists today or is added later
	fp := verifFrameBegin()
	verifFrameAllow(fp, m)
	verifFrameAllow(fp, m.IKEHeader)
	verifFrameAllowKind(fp, "ghost:hmac.buf")
	_, _ = EncodeEncrypt(m, sa, message.Role(role))
	verifFrameEnd(fp, "C01+C06+C17+C18+C20/protect-writes-only-the-message-object-and-hash-input")
	verifAssert(sa.Encr_i == ci && sa.Encr_r == cr && sa.Integ_i == ii && sa.Integ_r == ir && ci.Block == bi && cr.Block == br && ci.Iv == nil && ci.Padding == nil && cr.Iv == nil && cr.Padding == nil, "C17/protect-leaves-the-key-objects-as-they-were")
	r := new(message.IKEMessage)
	r.IKEHeader = new(message.IKEHeader)
	r.Payloads.BuildEncrypted(message.IkePayloadType(next), skBody)
	fu := verifFrameBegin()
	verifFrameAllow(fu, r)
	verifFrameAllow(fu, r.IKEHeader)
	verifFrameAllowKind(fu, "ghost:hmac.buf")
	// (the inner payload decoder is used through its contract here, which does not say
	// that the payload list it appends to starts out empty: the list's storage is exempt)
	verifFrameAllowKind(fu, "[]message.IKEPayload.")
	_, _ = decryptMsg(msg, r, sa, message.Role(role))
	verifFrameEnd(fu, "C01+C06+C17+C18+C20/unprotect-writes-only-the-message-object-and-hash-input")
	verifAssert(sa.Encr_i == ci && sa.Encr_r == cr && sa.Integ_i == ii && sa.Integ_r == ir && ci.Block == bi && cr.Block == br && ci.Iv == nil && ci.Padding == nil && cr.Iv == nil && cr.Padding == nil, "C17/unprotect-leaves-the-key-objects-as-they-were")
}
