//go:build verif

package ike

import (
	"github.com/free5gc/ike/message"
	ikeCrypto "github.com/free5gc/ike/security/IKECrypto"
)

// verifSpy is a cipher installed in the public interface-typed fields Encr_i / Encr_r:
// it records what it is handed and decrypts nothing.
type verifSpy struct {
	decrypts int
	last     []byte
}

var _ ikeCrypto.IKECrypto = &verifSpy{}

func (s *verifSpy) Encrypt(p []byte) ([]byte, error) { return p, nil }

func (s *verifSpy) Decrypt(c []byte) ([]byte, error) {
	s.decrypts++
	s.last = c
	return nil, nil // an empty inner payload list
}

// C02, the structural core (the cryptographic strength of HMAC is assumed, not proved):
// for ANY received bytes msg and ANY decoded SK body - related or not - ciphertext
// reaches a cipher only if
//   - the truncated HMAC under the PEER direction's integrity key (the receiver's role
//     negated) over every octet of the datagram from the first header octet up to the
//     checksum equals the last icv octets of the SK body, all icv octets compared,
//   - and then it is the peer direction's cipher that gets exactly the SK body without
//     the checksum, once.
// A datagram altered anywhere, truncated, extended, spliced, made under other keys or
// reflected to its own sender therefore fails unless the attacker forges that HMAC.
//
func verifC02Mac(role bool, integSel, encrSel uint8, ai, ar, ei, er []byte, msg, skBody []byte, next uint8, junk []byte) {
	sa := verifSA(integSel, encrSel, ai, ar, ei, er)
	sa.Integ_i.Write(junk) // any history
	sa.Integ_r.Write(junk)
	spyI, spyR := new(verifSpy), new(verifSpy)
	sa.Encr_i, sa.Encr_r = spyI, spyR
	kaPeer := ai // receiver is the responder: the peer (initiator) made the checksum
	if message.Role(role) == message.Role_Initiator {
		kaPeer = ar
	}
	kaPeer = append([]byte{}, kaPeer...)
	m0 := append([]byte{}, msg...)
	b0 := append([]byte{}, skBody...)
	m := new(message.IKEMessage)
	m.IKEHeader = new(message.IKEHeader)
	m.Payloads.BuildEncrypted(message.IkePayloadType(next), skBody)
	_, err := decryptMsg(msg, m, sa, message.Role(role))
	_, icv := verifIntegRef(integSel)
	n, nb := len(m0), len(b0)
	if spyI.decrypts+spyR.decrypts == 0 {
		return
	}
	verifAssert(n >= icv && nb >= icv, "C02/enough-octets-for-a-checksum-before-any-cipher-call")
	verifAssert(verifBytesEq(b0[nb-icv:], verifRefTag(integSel, kaPeer, m0[:n-icv])), "C02/cipher-called-only-after-the-peer-keyed-hmac-over-the-whole-datagram-matched")
	verifAssert(verifBytesEq(b0[nb-icv:], verifRefTag(integSel, kaPeer, m0[:n-icv])), "C17/forged-messages-still-rejected-after-any-history")
	if message.Role(role) == message.Role_Initiator {
		verifAssert(spyR.decrypts == 1 && spyI.decrypts == 0 && verifBytesEq(spyR.last, b0[:nb-icv]), "C02/peer-direction-cipher-gets-the-body-without-checksum-once")
	} else {
		verifAssert(spyI.decrypts == 1 && spyR.decrypts == 0 && verifBytesEq(spyI.last, b0[:nb-icv]), "C02/peer-direction-cipher-gets-the-body-without-checksum-once")
	}
	_ = err
}

// a datagram whose first payload is not SK is handled as an unprotected datagram to
// which no key is applied: no cipher call, plain decode result
//
//verif:bounded datagram of one unprotected payload (Nonce, any data)
//verif:bytes
//verif:maxlen data=60000
//verif:unroll (*message.IKEPayloadContainer).Encode#loop1 2 assert
//verif:unroll (*message.IKEPayloadContainer).Decode#loop1 2 assert
func lemma_C02_not_sk(role, withHeader bool, integSel, encrSel uint8, ai, ar, ei, er []byte, ispi, rspi uint64, exch, flags uint8, mid uint32, data []byte) {
	sa := verifSA(integSel, encrSel, ai, ar, ei, er)
	spyI, spyR := new(verifSpy), new(verifSpy)
	sa.Encr_i, sa.Encr_r = spyI, spyR
	msg, e0 := verifMsg1(ispi, rspi, 2, 0, exch, flags, mid, data).Encode()
	verifAssume(e0 == nil)
	var h *message.IKEHeader
	if withHeader {
		h, _ = message.ParseHeader(msg)
	}
	d, err := DecodeDecrypt(msg, h, sa, message.Role(role))
	verifAssert(spyI.decrypts == 0 && spyR.decrypts == 0, "C02/no-cipher-call-for-a-datagram-that-presents-no-SK-payload")
	verifAssert(err == nil && len(d.Payloads) == 1, "C02/handled-as-an-unprotected-datagram")
}

//verif:bytes
//verif:unroll ike.decryptMsg#loop1 2 assert
//verif:summary (*message.IKEPayloadContainer).Decode
func lemma_C02_mac_before_decrypt_initiator(integSel, encrSel uint8, ai, ar, ei, er []byte, msg, skBody []byte, next uint8, junk []byte) {
	verifC02Mac(bool(message.Role_Initiator), integSel, encrSel, ai, ar, ei, er, msg, skBody, next, junk)
}

//verif:bytes
//verif:unroll ike.decryptMsg#loop1 2 assert
//verif:summary (*message.IKEPayloadContainer).Decode
func lemma_C02_mac_before_decrypt_responder(integSel, encrSel uint8, ai, ar, ei, er []byte, msg, skBody []byte, next uint8, junk []byte) {
	verifC02Mac(bool(message.Role_Responder), integSel, encrSel, ai, ar, ei, er, msg, skBody, next, junk)
}

// the same at the public entry point: a datagram presenting one SK payload (any body,
// any header fields - in particular any flags), header pre-parsed or not.  The key
// direction is fixed by the receiver's role alone.
//
//verif:bounded datagram of exactly one SK payload
//verif:bytes
//verif:maxlen skBody=60000
//verif:unroll (*message.IKEPayloadContainer).Decode#loop1 2 assert
//verif:unroll ike.decryptMsg#loop1 2 assert
func lemma_C02_entry_point(role, withHeader bool, integSel, encrSel uint8, ai, ar, ei, er []byte, ispi, rspi uint64, exch, flags uint8, mid uint32, next uint8, skBody, junk []byte) {
	verifAssume(len(skBody) <= 60000)
	sa := verifSA(integSel, encrSel, ai, ar, ei, er)
	sa.Integ_i.Write(junk)
	sa.Integ_r.Write(junk)
	spyI, spyR := new(verifSpy), new(verifSpy)
	sa.Encr_i, sa.Encr_r = spyI, spyR
	kaPeer := ai
	if message.Role(role) == message.Role_Initiator {
		kaPeer = ar
	}
	kaPeer = append([]byte{}, kaPeer...)
	n := 28 + 4 + len(skBody)
	dgram := make([]byte, n)
	dgram[0], dgram[1], dgram[2], dgram[3], dgram[4], dgram[5], dgram[6], dgram[7] = byte(ispi>>56), byte(ispi>>48), byte(ispi>>40), byte(ispi>>32), byte(ispi>>24), byte(ispi>>16), byte(ispi>>8), byte(ispi)
	dgram[8], dgram[9], dgram[10], dgram[11], dgram[12], dgram[13], dgram[14], dgram[15] = byte(rspi>>56), byte(rspi>>48), byte(rspi>>40), byte(rspi>>32), byte(rspi>>24), byte(rspi>>16), byte(rspi>>8), byte(rspi)
	dgram[16], dgram[17], dgram[18], dgram[19] = 46, 0x20, exch, flags
	dgram[20], dgram[21], dgram[22], dgram[23] = byte(mid>>24), byte(mid>>16), byte(mid>>8), byte(mid)
	dgram[24], dgram[25], dgram[26], dgram[27] = byte(n>>24), byte(n>>16), byte(n>>8), byte(n)
	dgram[28], dgram[29], dgram[30], dgram[31] = next, 0, byte((n-28)>>8), byte(n-28)
	copy(dgram[32:], skBody)
	d0 := append([]byte{}, dgram...)
	var h *message.IKEHeader
	if withHeader {
		h, _ = message.ParseHeader(dgram)
	}
	_, _ = DecodeDecrypt(dgram, h, sa, message.Role(role))
	if spyI.decrypts+spyR.decrypts == 0 {
		return
	}
	_, icv := verifIntegRef(integSel)
	verifAssert(len(skBody) >= icv, "C02/entry/enough-octets-for-a-checksum-before-any-cipher-call")
	verifAssert(verifBytesEq(d0[n-icv:], verifRefTag(integSel, kaPeer, d0[:n-icv])), "C02/entry/cipher-called-only-after-the-hmac-under-the-receivers-peer-key-matched")
	if message.Role(role) == message.Role_Initiator {
		verifAssert(spyR.decrypts == 1 && spyI.decrypts == 0, "C02/entry/the-receivers-role-alone-selects-the-cipher")
	} else {
		verifAssert(spyI.decrypts == 1 && spyR.decrypts == 0, "C02/entry/the-receivers-role-alone-selects-the-cipher")
	}
}
