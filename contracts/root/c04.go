//go:build verif

package ike

import (
	"github.com/free5gc/ike/message"
	"github.com/free5gc/ike/security"
	"github.com/free5gc/ike/security/encr"
	"github.com/free5gc/ike/security/integ"
)

// verifSA builds an IKE SA key object the way the library's own users (and its test
// suite) do: algorithm descriptors from the registries, the four direction objects
// from the descriptors' constructors.  Key sets the constructors refuse are outside
// the lemmas' domain (verifAssume).
func verifSA(integSel, encrSel uint8, ai, ar, ei, er []byte) *security.IKESAKey {
	sa := new(security.IKESAKey)
	switch integSel % 3 {
	case 0:
		sa.IntegInfo = integ.StrToType(integ.AUTH_HMAC_MD5_96)
	case 1:
		sa.IntegInfo = integ.StrToType(integ.AUTH_HMAC_SHA1_96)
	default:
		sa.IntegInfo = integ.StrToType(integ.AUTH_HMAC_SHA2_256_128)
	}
	switch encrSel % 3 {
	case 0:
		sa.EncrInfo = encr.StrToType(encr.ENCR_AES_CBC_128)
	case 1:
		sa.EncrInfo = encr.StrToType(encr.ENCR_AES_CBC_192)
	default:
		sa.EncrInfo = encr.StrToType(encr.ENCR_AES_CBC_256)
	}
	sa.Integ_i = sa.IntegInfo.Init(ai)
	sa.Integ_r = sa.IntegInfo.Init(ar)
	verifAssume(sa.Integ_i != nil && sa.Integ_r != nil)
	var err error
	sa.Encr_i, err = sa.EncrInfo.NewCrypto(ei)
	verifAssume(err == nil)
	sa.Encr_r, err = sa.EncrInfo.NewCrypto(er)
	verifAssume(err == nil)
	return sa
}

// C04: unprotection of arbitrary bytes with any key set, header pre-parsed or not.
//verif:summary (*message.IKEPayloadContainer).Decode
func lemma_C04_DecodeDecrypt_keys(msg []byte, withHeader bool, role bool, integSel, encrSel uint8, ai, ar, ei, er []byte) {
	sa := verifSA(integSel, encrSel, ai, ar, ei, er)
	var h *message.IKEHeader
	if withHeader {
		var err error
		h, err = message.ParseHeader(msg)
		if err != nil {
			return
		}
	}
	_, _ = DecodeDecrypt(msg, h, sa, message.Role(role))
}

//verif:summary (*message.IKEPayloadContainer).Decode
func lemma_C04_DecodeDecrypt_nokeys(msg []byte, withHeader bool, role bool) {
	var h *message.IKEHeader
	if withHeader {
		var err error
		h, err = message.ParseHeader(msg)
		if err != nil {
			return
		}
	}
	_, _ = DecodeDecrypt(msg, h, nil, message.Role(role))
}

// header supplied by the caller that was not parsed from these bytes
//
//verif:summary (*message.IKEPayloadContainer).Decode
func lemma_C04_DecodeDecrypt_foreignHeader(msg []byte, next uint8, role bool, integSel, encrSel uint8, ai, ar, ei, er []byte) {
	sa := verifSA(integSel, encrSel, ai, ar, ei, er)
	h := new(message.IKEHeader)
	h.NextPayload = next
	_, _ = DecodeDecrypt(msg, h, sa, message.Role(role))
}
