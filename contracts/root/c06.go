//go:build verif

package ike

import (
	"crypto/aes"
	"crypto/cipher"
	"crypto/hmac"
	"crypto/md5"
	"crypto/sha1"
	"crypto/sha256"
	"hash"

	"github.com/free5gc/ike/message"
)

// ---- the independent peer: textbook HMAC / AES-CBC over the standard library ----

func verifIntegRef(integSel uint8) (func() hash.Hash, int) {
	switch integSel % 3 {
	case 0:
		return md5.New, 12 // HMAC-MD5-96
	case 1:
		return sha1.New, 12 // HMAC-SHA1-96
	}
	return sha256.New, 16 // HMAC-SHA2-256-128
}

func verifRefTag(integSel uint8, key, data []byte) []byte {
	nh, icv := verifIntegRef(integSel)
	h := hmac.New(nh, key)
	h.Write(data)
	return h.Sum(nil)[:icv]
}

func verifRefCbcDec(key, iv, ct []byte) []byte {
	blk, err := aes.NewCipher(key)
	verifAssume(err == nil)
	out := make([]byte, len(ct))
	cipher.NewCBCDecrypter(blk, iv).CryptBlocks(out, ct)
	return out
}

func verifRefCbcEnc(key, iv, pt []byte) []byte {
	blk, err := aes.NewCipher(key)
	verifAssume(err == nil)
	out := make([]byte, len(pt))
	cipher.NewCBCEncrypter(blk, iv).CryptBlocks(out, pt)
	return out
}

// C06 (sender side): a protected message is header | SK generic header | IV | CBC(inner
// payloads | padding | pad length) | truncated HMAC over everything before it, under the
// sender's direction-specific keys, with both length fields final.  Inner payload list:
// one Nonce payload with arbitrary data (bounded stand-in for "any payload list"; the
// empty list has its own lemma).
//
//verif:bounded inner payload list of exactly one payload (Nonce, any data)
//verif:bytes
//verif:maxlen data=60000
//verif:unroll (*message.IKEPayloadContainer).Encode#loop1 2 assert
//verif:unroll security/lib.PKCS7Padding#loop1 16 assert
func lemma_C06_format(role bool, integSel, encrSel uint8, ai, ar, ei, er []byte, ispi, rspi uint64, exch, flags, staleNext uint8, mid uint32, data, junk []byte) {
	sa := verifSA(integSel, encrSel, ai, ar, ei, er)
	verifHistory(sa, junk) // C17: an SA object with any history of earlier operations
	ka, ke := ar, er
	if message.Role(role) == message.Role_Initiator {
		ka, ke = ai, ei
	}
	ka, ke = append([]byte{}, ka...), append([]byte{}, ke...)
	d0 := append([]byte{}, data...)
	m := new(message.IKEMessage)
	// (the header's next-payload field is whatever an earlier use of the message object
	// left there: it is an output of encoding, never an input)
	m.IKEHeader = &message.IKEHeader{InitiatorSPI: ispi, ResponderSPI: rspi, MajorVersion: 2, ExchangeType: exch, Flags: flags, MessageID: mid, NextPayload: staleNext}
	m.Payloads.BuildNonce(data)
	out, err := EncodeEncrypt(m, sa, message.Role(role))
	if verifRandFailed() {
		verifAssert(err != nil, "C06/failing-random-source-gives-an-error")
		return
	}
	verifAssert(err == nil, "C01+C06/protect-succeeds")
	_, icv := verifIntegRef(integSel)
	np := 4 + len(d0)          // inner payloads: one generic header + nonce data
	k16 := (np/16 + 1) * 16 // plaintext | padding | pad length: next multiple of 16 above np
	n := len(out)
	verifAssert(n == 28+4+16+k16+icv, "C01+C06/datagram-size")
	verifAssert(out[16] == 46 && int(uint32(out[24])<<24|uint32(out[25])<<16|uint32(out[26])<<8|uint32(out[27])) == n, "C01+C06/header-names-SK-and-states-the-final-length")
	verifAssert(out[17] == 0x20 && out[18] == exch && out[19] == flags, "C01+C06/header-fields-in-clear")
	verifAssert(out[28] == 40 && out[29] == 0 && int(out[30])<<8|int(out[31]) == n-28, "C01+C06/SK-header-names-first-inner-payload-and-states-the-final-length")
	iv, ct, tag := out[32:48], out[48:n-icv], out[n-icv:]
	verifAssert(verifRandDrawn(iv), "C06/iv-is-a-fresh-draw")
	pt := verifRefCbcDec(ke, iv, ct)
	verifAssert(pt[0] == 0 && pt[1] == 0 && int(pt[2])<<8|int(pt[3]) == np && verifBytesEq(pt[4:np], d0), "C01+C06/body-is-the-cbc-encryption-of-the-inner-payloads-under-the-senders-key")
	verifAssert(int(pt[k16-1]) == k16-np-1, "C01+C06/pad-length-octet")
	verifAssert(verifBytesEq(tag, verifRefTag(integSel, ka, out[:n-icv])), "C01+C06/checksum-is-the-truncated-hmac-over-everything-before-it-under-the-senders-key")
	// C17: this is the datagram a freshly built SA holding the same keys produces (same
	// layout, keys and MAC; IV and padding are per-call draws), so a fresh peer accepts it
	// (lemma_C06_accept)
	verifAssert(verifBytesEq(tag, verifRefTag(integSel, ka, out[:n-icv])) && int(pt[k16-1]) == k16-np-1, "C17/message-protected-after-any-history-is-what-a-fresh-sa-would-send")
}

// ---- the independent peer's sender: builds a protected datagram from its pieces ----

func verifRefProtected(integSel uint8, ka, ke []byte, ispi, rspi uint64, major, minor, exch, flags uint8, mid uint32, np uint8, inner, iv, pad []byte) []byte {
	_, icv := verifIntegRef(integSel)
	pt := make([]byte, len(inner)+len(pad)+1)
	copy(pt, inner)
	copy(pt[len(inner):], pad)
	pt[len(pt)-1] = byte(len(pad))
	ct := verifRefCbcEnc(ke, iv, pt)
	n := 28 + 4 + 16 + len(ct) + icv
	out := make([]byte, n)
	out[0], out[1], out[2], out[3], out[4], out[5], out[6], out[7] = byte(ispi>>56), byte(ispi>>48), byte(ispi>>40), byte(ispi>>32), byte(ispi>>24), byte(ispi>>16), byte(ispi>>8), byte(ispi)
	out[8], out[9], out[10], out[11], out[12], out[13], out[14], out[15] = byte(rspi>>56), byte(rspi>>48), byte(rspi>>40), byte(rspi>>32), byte(rspi>>24), byte(rspi>>16), byte(rspi>>8), byte(rspi)
	out[16], out[17], out[18], out[19] = 46, major<<4|minor, exch, flags
	out[20], out[21], out[22], out[23] = byte(mid>>24), byte(mid>>16), byte(mid>>8), byte(mid)
	out[24], out[25], out[26], out[27] = byte(n>>24), byte(n>>16), byte(n>>8), byte(n)
	out[28], out[29], out[30], out[31] = np, 0, byte((n-28)>>8), byte(n-28)
	copy(out[32:48], iv)
	copy(out[48:], ct)
	tag := verifRefTag(integSel, ka, out[:n-icv])
	copy(out[n-icv:], tag)
	return out
}

// C06 (receiver side) / C01: a datagram an independent implementation builds under the
// sender's direction keys - any IV, any legal pad length 0..255 with arbitrary pad
// octets - is accepted by the opposite role holding the same keys and decodes to the
// payloads and header fields it was built from, header pre-parsed or not.
//
//verif:bounded inner payload list of exactly one payload (Nonce, any data)
//verif:bytes
//verif:maxlen data=60000 pad=255
//verif:unroll (*message.IKEPayloadContainer).Decode#loop1 2 assert
//verif:unroll ike.decryptMsg#loop1 2 assert
func lemma_C06_accept(senderRole, withHeader bool, integSel, encrSel uint8, ai, ar, ei, er []byte, ispi, rspi uint64, major, minor, exch, flags uint8, mid uint32, data, iv, pad, junk []byte) {
	verifAssume(major <= 15 && minor <= 15 && len(iv) == 16 && len(pad) <= 255 && (4+len(data)+len(pad)+1)%16 == 0 && len(data) <= 60000)
	receiver := verifSA(integSel, encrSel, ai, ar, ei, er)
	receiver.Integ_i.Write(junk) // any history
	receiver.Integ_r.Write(junk)
	ka, ke := ar, er
	if message.Role(senderRole) == message.Role_Initiator {
		ka, ke = ai, ei
	}
	inner := make([]byte, 4+len(data))
	inner[0], inner[1], inner[2], inner[3] = 0, 0, byte((4+len(data))>>8), byte(4+len(data))
	copy(inner[4:], data)
	dgram := verifRefProtected(integSel, ka, ke, ispi, rspi, major, minor, exch, flags, mid, 40, inner, iv, pad)
	var h *message.IKEHeader
	if withHeader {
		var e error
		h, e = message.ParseHeader(dgram)
		verifAssert(e == nil, "C06/reference-datagram-has-a-parsable-header")
	}
	d, err := DecodeDecrypt(dgram, h, receiver, message.Role(!senderRole))
	verifAssert(err == nil, "C06/reference-built-datagram-accepted")
	verifAssert(err == nil, "C17/genuine-message-from-a-fresh-peer-accepted-after-any-history")
	verifAssert(verifSameHeader(d, ispi, rspi, major, minor, exch, flags, mid), "C01/header-fields-recovered")
	verifAssert(len(d.Payloads) == 1, "C01/payload-count-recovered")
	q, ok := d.Payloads[0].(*message.Nonce)
	verifAssert(ok && verifBytesEq(q.NonceData, data), "C01/payload-recovered")
	verifAssert(verifDisjoint(q.NonceData, dgram), "C20/unprotected-payload-owns-its-data")
}

// the empty inner payload list (SK names no payload)
//
//verif:bytes
//verif:maxlen pad=255
//verif:unroll (*message.IKEPayloadContainer).Decode#loop1 2 assert
//verif:unroll ike.decryptMsg#loop1 2 assert
func lemma_C06_accept_empty(senderRole, withHeader bool, integSel, encrSel uint8, ai, ar, ei, er []byte, ispi, rspi uint64, exch, flags uint8, mid uint32, iv, pad []byte) {
	verifAssume(len(iv) == 16 && len(pad) <= 255 && (len(pad)+1)%16 == 0)
	receiver := verifSA(integSel, encrSel, ai, ar, ei, er)
	ka, ke := ar, er
	if message.Role(senderRole) == message.Role_Initiator {
		ka, ke = ai, ei
	}
	dgram := verifRefProtected(integSel, ka, ke, ispi, rspi, 2, 0, exch, flags, mid, 0, nil, iv, pad)
	var h *message.IKEHeader
	if withHeader {
		h, _ = message.ParseHeader(dgram)
	}
	d, err := DecodeDecrypt(dgram, h, receiver, message.Role(!senderRole))
	verifAssert(err == nil && verifSameHeader(d, ispi, rspi, 2, 0, exch, flags, mid) && len(d.Payloads) == 0, "C01/empty-message-accepted-with-no-payloads")
}
