//go:build verif

package security

import (
	"crypto/aes"
	"crypto/cipher"
	"crypto/hmac"
	"crypto/md5"
	"crypto/sha1"
	"crypto/sha256"
	"hash"

	"github.com/free5gc/ike/security/dh"
	"github.com/free5gc/ike/security/encr"
	"github.com/free5gc/ike/security/integ"
	"github.com/free5gc/ike/security/lib"
	"github.com/free5gc/ike/security/prf"
)

// ---- independent reference: RFC 7296 2.13 prf+ over the standard library's HMAC ----

// prf+ (K,S): the library's PrfPlus applied to a freshly keyed standard-library HMAC.
// PrfPlus itself is tied to RFC 7296 2.13 in contracts/security/lib/c07.go (per-
// iteration contract for every block, textbook comparison up to 4 blocks); here it
// is used through its contract: a function of (algorithm, key, seed, length).
func verifPrfPlus(newHash func() hash.Hash, key, seed []byte, n int) []byte {
	return lib.PrfPlus(hmac.New(newHash, key), seed, n)
}

// the negotiable algorithms with the lengths their RFCs prescribe (RFC 2104/2403/2404/
// 4868: PRF key = output = 16/20/32; integrity key 16/20/32; RFC 3602: 16/24/32)
func verifPrfAlg(sel uint8) (prf.PRFType, func() hash.Hash, int) {
	switch sel % 3 {
	case 0:
		return prf.StrToType(prf.PRF_HMAC_MD5), md5.New, 16
	case 1:
		return prf.StrToType(prf.PRF_HMAC_SHA1), sha1.New, 20
	}
	return prf.StrToType(prf.PRF_HMAC_SHA2_256), sha256.New, 32
}

func verifIntegAlg(sel uint8) (integ.INTEGType, func() hash.Hash, int, int) {
	switch sel % 3 {
	case 0:
		return integ.StrToType(integ.AUTH_HMAC_MD5_96), md5.New, 16, 12
	case 1:
		return integ.StrToType(integ.AUTH_HMAC_SHA1_96), sha1.New, 20, 12
	}
	return integ.StrToType(integ.AUTH_HMAC_SHA2_256_128), sha256.New, 32, 16
}

func verifEncrAlg(sel uint8) (encr.ENCRType, int) {
	switch sel % 3 {
	case 0:
		return encr.StrToType(encr.ENCR_AES_CBC_128), 16
	case 1:
		return encr.StrToType(encr.ENCR_AES_CBC_192), 24
	}
	return encr.StrToType(encr.ENCR_AES_CBC_256), 32
}

// seed of prf+ in RFC 7296 2.14: Ni | Nr | SPIi | SPIr (SPIs as 8 octets, big endian)
//
//verif:contract security.concatenateNonceAndSPI
func contract_concatenateNonceAndSPI(nonce []byte, si, sr uint64) (r []byte) {
	r = concatenateNonceAndSPI(nonce, si, sr)
	n := len(nonce)
	i := verifAny()
	verifEnsures(len(r) == n+16 && verifFresh(r), "C07/seed-length")
	verifEnsures(!(0 <= i && i < n) || r[i] == nonce[i], "C07/seed-starts-with-the-nonces")
	verifEnsures(r[n] == byte(si>>56) && r[n+1] == byte(si>>48) && r[n+2] == byte(si>>40) && r[n+3] == byte(si>>32) && r[n+4] == byte(si>>24) && r[n+5] == byte(si>>16) && r[n+6] == byte(si>>8) && r[n+7] == byte(si), "C07/seed-initiator-spi-big-endian")
	verifEnsures(r[n+8] == byte(sr>>56) && r[n+9] == byte(sr>>48) && r[n+10] == byte(sr>>40) && r[n+11] == byte(sr>>32) && r[n+12] == byte(sr>>24) && r[n+13] == byte(sr>>16) && r[n+14] == byte(sr>>8) && r[n+15] == byte(sr), "C07/seed-responder-spi-big-endian")
	return
}

//verif:maxlen nonce=1099511627776
func lemma_C07_seed(nonce []byte, si, sr uint64) {
	_ = contract_concatenateNonceAndSPI(nonce, si, sr)
}

type verifKeys struct {
	d, ai, ar, ei, er, pi, pr []byte
}

// reference derivation of the seven keys (RFC 7296 2.14)
func verifIKEKeys(newPrf func() hash.Hash, lp, la, le int, nonce, secret []byte, si, sr uint64) verifKeys {
	h := hmac.New(newPrf, nonce)
	h.Write(secret)
	skeyseed := h.Sum(nil)
	seed := append([]byte{}, nonce...)
	seed = append(seed, byte(si>>56), byte(si>>48), byte(si>>40), byte(si>>32), byte(si>>24), byte(si>>16), byte(si>>8), byte(si))
	seed = append(seed, byte(sr>>56), byte(sr>>48), byte(sr>>40), byte(sr>>32), byte(sr>>24), byte(sr>>16), byte(sr>>8), byte(sr))
	ks := verifPrfPlus(newPrf, skeyseed, seed, 3*lp+2*la+2*le)
	var k verifKeys
	k.d, ks = ks[:lp], ks[lp:]
	k.ai, ks = ks[:la], ks[la:]
	k.ar, ks = ks[:la], ks[la:]
	k.ei, ks = ks[:le], ks[le:]
	k.er, ks = ks[:le], ks[le:]
	k.pi, ks = ks[:lp], ks[lp:]
	k.pr = ks[:lp]
	return k
}

func verifNewSA(prfSel, integSel, encrSel uint8) (*IKESAKey, func() hash.Hash, func() hash.Hash, int, int, int, int) {
	sa := new(IKESAKey)
	var newPrf, newInteg func() hash.Hash
	var lp, la, le, icv int
	sa.PrfInfo, newPrf, lp = verifPrfAlg(prfSel)
	sa.IntegInfo, newInteg, la, icv = verifIntegAlg(integSel)
	sa.EncrInfo, le = verifEncrAlg(encrSel)
	sa.DhInfo = dh.StrToType(dh.DH_2048_BIT_MODP)
	return sa, newPrf, newInteg, lp, la, le, icv
}

// SKEYSEED = prf(Ni|Nr, g^ir);  {SK_d|SK_ai|SK_ar|SK_ei|SK_er|SK_pi|SK_pr} = prf+(SKEYSEED, Ni|Nr|SPIi|SPIr)
// for all 27 suites, every nonce, secret and SPI pair.
//
func verifC07Keys(prfSel, integSel, encrSel uint8, nonce, secret []byte, si, sr uint64) {
	sa, newPrf, _, lp, la, le, _ := verifNewSA(prfSel, integSel, encrSel)
	verifAssert(sa.PrfInfo.GetKeyLength() == lp && sa.PrfInfo.GetOutputLength() == lp && sa.IntegInfo.GetKeyLength() == la && sa.EncrInfo.GetKeyLength() == le, "C07/lengths-are-those-the-rfcs-prescribe")
	n0 := append([]byte{}, nonce...)
	s0 := append([]byte{}, secret...)
	err := sa.GenerateKeyForIKESA(nonce, secret, si, sr)
	if len(nonce) == 0 || len(secret) == 0 {
		verifAssert(err != nil, "C07/empty-nonce-or-secret-refused")
		return
	}
	verifAssert(err == nil, "C07/derivation-succeeds")
	k := verifIKEKeys(newPrf, lp, la, le, n0, s0, si, sr)
	verifAssert(verifBytesEq(sa.SK_d, k.d), "C07/SK_d")
	verifAssert(verifBytesEq(sa.SK_ai, k.ai), "C07/SK_ai")
	verifAssert(verifBytesEq(sa.SK_ar, k.ar), "C07/SK_ar")
	verifAssert(verifBytesEq(sa.SK_ei, k.ei), "C07/SK_ei")
	verifAssert(verifBytesEq(sa.SK_er, k.er), "C07/SK_er")
	verifAssert(verifBytesEq(sa.SK_pi, k.pi), "C07/SK_pi")
	verifAssert(verifBytesEq(sa.SK_pr, k.pr), "C07/SK_pr")
}

func verifMac(h hash.Hash, probe []byte) []byte {
	h.Reset()
	h.Write(probe)
	return h.Sum(nil)
}

func verifRefMac(newHash func() hash.Hash, key, probe []byte) []byte {
	h := hmac.New(newHash, key)
	h.Write(probe)
	return h.Sum(nil)
}

// the ready-to-use objects are keyed with exactly those keys: each PRF / integrity
// object computes HMAC under its key on any probe input, each cipher decrypts any
// probe ciphertext as a textbook AES-CBC under its key
//
func verifC07Objects(prfSel, integSel, encrSel uint8, nonce, secret []byte, si, sr uint64, probe []byte) {
	sa, newPrf, newInteg, _, _, _, _ := verifNewSA(prfSel, integSel, encrSel)
	if sa.GenerateKeyForIKESA(nonce, secret, si, sr) != nil {
		return
	}
	verifAssert(sa.Prf_d != nil && sa.Prf_i != nil && sa.Prf_r != nil && sa.Integ_i != nil && sa.Integ_r != nil && sa.Encr_i != nil && sa.Encr_r != nil, "C07/all-seven-objects-present")
	verifAssert(verifBytesEq(verifMac(sa.Prf_d, probe), verifRefMac(newPrf, sa.SK_d, probe)), "C07/Prf_d-keyed-with-SK_d")
	verifAssert(verifBytesEq(verifMac(sa.Prf_i, probe), verifRefMac(newPrf, sa.SK_pi, probe)), "C07/Prf_i-keyed-with-SK_pi")
	verifAssert(verifBytesEq(verifMac(sa.Prf_r, probe), verifRefMac(newPrf, sa.SK_pr, probe)), "C07/Prf_r-keyed-with-SK_pr")
	verifAssert(verifBytesEq(verifMac(sa.Integ_i, probe), verifRefMac(newInteg, sa.SK_ai, probe)), "C07/Integ_i-keyed-with-SK_ai")
	verifAssert(verifBytesEq(verifMac(sa.Integ_r, probe), verifRefMac(newInteg, sa.SK_ar, probe)), "C07/Integ_r-keyed-with-SK_ar")
}

func verifRefCbcDecrypt(key, ct []byte) []byte {
	blk, err := aes.NewCipher(key)
	verifAssume(err == nil)
	out := make([]byte, len(ct)-16)
	cipher.NewCBCDecrypter(blk, ct[:16]).CryptBlocks(out, ct[16:])
	return out
}

func verifC07Ciphers(prfSel, integSel, encrSel uint8, nonce, secret []byte, si, sr uint64, ct []byte) {
	sa, _, _, _, _, _, _ := verifNewSA(prfSel, integSel, encrSel)
	if sa.GenerateKeyForIKESA(nonce, secret, si, sr) != nil {
		return
	}
	verifAssume(len(ct) >= 32 && len(ct)%16 == 0)
	pi, ei := sa.Encr_i.Decrypt(ct)
	ri := verifRefCbcDecrypt(sa.SK_ei, ct)
	pad := int(ri[len(ri)-1]) + 1
	verifAssert((ei == nil) == (pad <= len(ri)) && (ei != nil || verifBytesEq(pi, ri[:len(ri)-pad])), "C07/Encr_i-keyed-with-SK_ei")
	pr, er := sa.Encr_r.Decrypt(ct)
	rr := verifRefCbcDecrypt(sa.SK_er, ct)
	padr := int(rr[len(rr)-1]) + 1
	verifAssert((er == nil) == (padr <= len(rr)) && (er != nil || verifBytesEq(pr, rr[:len(rr)-padr])), "C07/Encr_r-keyed-with-SK_er")
}


// one lemma per PRF (the integrity and encryption algorithms stay symbolic): 27 suites

//verif:bytes
//verif:maxlen nonce=1099511627776 secret=1099511627776
//verif:summary security/lib.PrfPlus
func lemma_C07_Keys_md5(integSel, encrSel uint8, nonce, secret []byte, si, sr uint64) {
	verifC07Keys(0, integSel, encrSel, nonce, secret, si, sr)
}

//verif:bytes
//verif:maxlen nonce=1099511627776 secret=1099511627776 probe=1099511627776
//verif:summary security/lib.PrfPlus
func lemma_C07_Objects_md5(integSel, encrSel uint8, nonce, secret []byte, si, sr uint64, probe []byte) {
	verifC07Objects(0, integSel, encrSel, nonce, secret, si, sr, probe)
}

//verif:bytes
//verif:maxlen nonce=1099511627776 secret=1099511627776 ct=1099511627776
//verif:summary security/lib.PrfPlus
func lemma_C07_Ciphers_md5(integSel, encrSel uint8, nonce, secret []byte, si, sr uint64, ct []byte) {
	verifC07Ciphers(0, integSel, encrSel, nonce, secret, si, sr, ct)
}

//verif:bytes
//verif:maxlen nonce=1099511627776 secret=1099511627776
//verif:summary security/lib.PrfPlus
func lemma_C07_Keys_sha1(integSel, encrSel uint8, nonce, secret []byte, si, sr uint64) {
	verifC07Keys(1, integSel, encrSel, nonce, secret, si, sr)
}

//verif:bytes
//verif:maxlen nonce=1099511627776 secret=1099511627776 probe=1099511627776
//verif:summary security/lib.PrfPlus
func lemma_C07_Objects_sha1(integSel, encrSel uint8, nonce, secret []byte, si, sr uint64, probe []byte) {
	verifC07Objects(1, integSel, encrSel, nonce, secret, si, sr, probe)
}

//verif:bytes
//verif:maxlen nonce=1099511627776 secret=1099511627776 ct=1099511627776
//verif:summary security/lib.PrfPlus
func lemma_C07_Ciphers_sha1(integSel, encrSel uint8, nonce, secret []byte, si, sr uint64, ct []byte) {
	verifC07Ciphers(1, integSel, encrSel, nonce, secret, si, sr, ct)
}

//verif:bytes
//verif:maxlen nonce=1099511627776 secret=1099511627776
//verif:summary security/lib.PrfPlus
func lemma_C07_Keys_sha256(integSel, encrSel uint8, nonce, secret []byte, si, sr uint64) {
	verifC07Keys(2, integSel, encrSel, nonce, secret, si, sr)
}

//verif:bytes
//verif:maxlen nonce=1099511627776 secret=1099511627776 probe=1099511627776
//verif:summary security/lib.PrfPlus
func lemma_C07_Objects_sha256(integSel, encrSel uint8, nonce, secret []byte, si, sr uint64, probe []byte) {
	verifC07Objects(2, integSel, encrSel, nonce, secret, si, sr, probe)
}

//verif:bytes
//verif:maxlen nonce=1099511627776 secret=1099511627776 ct=1099511627776
//verif:summary security/lib.PrfPlus
func lemma_C07_Ciphers_sha256(integSel, encrSel uint8, nonce, secret []byte, si, sr uint64, ct []byte) {
	verifC07Ciphers(2, integSel, encrSel, nonce, secret, si, sr, ct)
}

