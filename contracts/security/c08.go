//go:build verif

package security

import (
	"crypto/hmac"
	"crypto/sha256"
	"hash"

	"github.com/free5gc/ike/security/encr"
	"github.com/free5gc/ike/security/integ"
	"github.com/free5gc/ike/security/lib"
)

// C08: KEYMAT = prf+(SK_d, Ni | Nr), cut in the order i2r encryption, i2r integrity,
// r2i encryption, r2i integrity (RFC 7296 2.17), lengths from the negotiated ESP
// transforms (integrity possibly absent).  The IKE SA is any SA whose Prf_d is keyed
// with SK_d - in whatever buffered state earlier use has left it.

func verifEncrK(sel uint8) (encr.ENCRKType, int) {
	switch sel % 3 {
	case 0:
		return encr.StrToKType(encr.ENCR_AES_CBC_128), 16
	case 1:
		return encr.StrToKType(encr.ENCR_AES_CBC_192), 24
	}
	return encr.StrToKType(encr.ENCR_AES_CBC_256), 32
}

// integrity key lengths of RFC 2403 / 2404 / 4868; sel%4 == 3: no integrity transform
func verifIntegK(sel uint8) (integ.INTEGKType, int) {
	switch sel % 4 {
	case 0:
		return integ.StrToKType(integ.AUTH_HMAC_MD5_96), 16
	case 1:
		return integ.StrToKType(integ.AUTH_HMAC_SHA1_96), 20
	case 2:
		return integ.StrToKType(integ.AUTH_HMAC_SHA2_256_128), 32
	}
	return nil, 0
}

func verifChildKeys(newPrf func() hash.Hash, skd, nonce []byte, le, la int) (ei, ai, er, ar []byte) {
	ks := lib.PrfPlus(hmac.New(newPrf, skd), nonce, 2*le+2*la)
	ei, ks = ks[:le], ks[le:]
	ai, ks = ks[:la], ks[la:]
	er, ks = ks[:le], ks[le:]
	ar = ks[:la]
	return
}

func verifC08(prfSel, encrSel, integSel uint8, skd, junk, nonce1, nonce2 []byte) {
	sa := new(IKESAKey)
	var newPrf func() hash.Hash
	sa.PrfInfo, newPrf, _ = verifPrfAlg(prfSel)
	sa.IntegInfo, _, _, _ = verifIntegAlg(integSel) // (must play no role)
	sa.SK_d = skd
	sa.Prf_d = sa.PrfInfo.Init(skd)
	sa.Prf_d.Write(junk) // state left behind by any earlier use of the long-lived object
	k0 := append([]byte{}, skd...)
	n1 := append([]byte{}, nonce1...)
	n2 := append([]byte{}, nonce2...)

	c1 := new(ChildSAKey)
	var le, la int
	c1.EncrKInfo, le = verifEncrK(encrSel)
	c1.IntegKInfo, la = verifIntegK(integSel)
	verifAssert(c1.EncrKInfo.GetKeyLength() == le && (c1.IntegKInfo == nil || c1.IntegKInfo.GetKeyLength() == la), "C08/lengths-are-those-of-the-esp-transforms")
	err := c1.GenerateKeyForChildSA(sa, nonce1)
	verifAssert(err == nil, "C08/derivation-succeeds")
	ei, ai, er, ar := verifChildKeys(newPrf, k0, n1, le, la)
	verifAssert(verifBytesEq(c1.InitiatorToResponderEncryptionKey, ei), "C08/i2r-encryption-key")
	verifAssert(verifBytesEq(c1.InitiatorToResponderIntegrityKey, ai), "C08/i2r-integrity-key")
	verifAssert(verifBytesEq(c1.ResponderToInitiatorEncryptionKey, er), "C08/r2i-encryption-key")
	verifAssert(verifBytesEq(c1.ResponderToInitiatorIntegrityKey, ar), "C08/r2i-integrity-key")

	// a later derivation on the same IKE SA object
	c2 := new(ChildSAKey)
	c2.EncrKInfo, c2.IntegKInfo = c1.EncrKInfo, c1.IntegKInfo
	err2 := c2.GenerateKeyForChildSA(sa, nonce2)
	verifAssert(err2 == nil, "C08/later-derivation-succeeds")
	ei2, ai2, er2, ar2 := verifChildKeys(newPrf, k0, n2, le, la)
	verifAssert(verifBytesEq(c2.InitiatorToResponderEncryptionKey, ei2) && verifBytesEq(c2.InitiatorToResponderIntegrityKey, ai2), "C08/later-derivation-i2r-keys-as-on-a-fresh-sa")
	verifAssert(verifBytesEq(c2.ResponderToInitiatorEncryptionKey, er2) && verifBytesEq(c2.ResponderToInitiatorIntegrityKey, ar2), "C08/later-derivation-r2i-keys-as-on-a-fresh-sa")
}

//verif:bytes
//verif:maxlen skd=1099511627776 nonce1=1099511627776 nonce2=1099511627776 junk=1099511627776
//verif:summary security/lib.PrfPlus
func lemma_C08_md5(encrSel, integSel uint8, skd, junk, nonce1, nonce2 []byte) {
	verifC08(0, encrSel, integSel, skd, junk, nonce1, nonce2)
}

//verif:bytes
//verif:maxlen skd=1099511627776 nonce1=1099511627776 nonce2=1099511627776 junk=1099511627776
//verif:summary security/lib.PrfPlus
func lemma_C08_sha1(encrSel, integSel uint8, skd, junk, nonce1, nonce2 []byte) {
	verifC08(1, encrSel, integSel, skd, junk, nonce1, nonce2)
}

//verif:bytes
//verif:maxlen skd=1099511627776 nonce1=1099511627776 nonce2=1099511627776 junk=1099511627776
//verif:summary security/lib.PrfPlus
func lemma_C08_sha256(encrSel, integSel uint8, skd, junk, nonce1, nonce2 []byte) {
	verifC08(2, encrSel, integSel, skd, junk, nonce1, nonce2)
}

// the per-iteration contract of PrfPlus (reset before every block) is what makes the
// result independent of the object's history: it is an obligation of C08 as well
//
//verif:bytes
//verif:maxlen key=1099511627776 s=1099511627776
func lemma_C08_PrfPlus_history(key, s, junk []byte, n int) {
	h := hmac.New(sha256.New, key)
	h.Write(junk)
	verifAssume(n >= 0 && n <= 1<<20)
	_ = lib.PrfPlus(h, s, n)
}

// C17: deriving a Child SA changes nothing in the IKE SA object but the buffered input
// of Prf_d, and a derivation after any history gives the keys a fresh SA gives (the
// assertions of verifC08 above start from arbitrary buffered input and derive twice)
//
//verif:bytes
//verif:maxlen skd=1099511627776 nonce=1099511627776 junk=1099511627776
//verif:summary security/lib.PrfPlus
func lemma_C17_child_derivation(prfSel, encrSel, integSel uint8, skd, junk, nonce []byte) {
	sa := new(IKESAKey)
	var newPrf func() hash.Hash
	sa.PrfInfo, newPrf, _ = verifPrfAlg(prfSel)
	sa.SK_d = skd
	sa.Prf_d = sa.PrfInfo.Init(skd)
	sa.Prf_d.Write(junk)
	pd, pinfo := sa.Prf_d, sa.PrfInfo
	k0 := append([]byte{}, skd...)
	n0 := append([]byte{}, nonce...)
	c := new(ChildSAKey)
	var le, la int
	c.EncrKInfo, le = verifEncrK(encrSel)
	c.IntegKInfo, la = verifIntegK(integSel)
	err := c.GenerateKeyForChildSA(sa, nonce)
	verifAssert(err == nil && sa.Prf_d == pd && sa.PrfInfo == pinfo && verifSameSlice(sa.SK_d, skd) && verifBytesEq(sa.SK_d, k0), "C17/child-derivation-leaves-the-ike-sa-as-it-was")
	ei, ai, er, ar := verifChildKeys(newPrf, k0, n0, le, la)
	verifAssert(verifBytesEq(c.InitiatorToResponderEncryptionKey, ei) && verifBytesEq(c.InitiatorToResponderIntegrityKey, ai) && verifBytesEq(c.ResponderToInitiatorEncryptionKey, er) && verifBytesEq(c.ResponderToInitiatorIntegrityKey, ar), "C17/derived-keys-after-any-history-are-those-of-a-fresh-sa")
}

// the per-iteration contract of PrfPlus is an obligation of C17 as well
//
//verif:bytes
//verif:maxlen key=1099511627776 s=1099511627776
func lemma_C17_PrfPlus_history(key, s, junk []byte, n int) {
	h := hmac.New(sha256.New, key)
	h.Write(junk)
	verifAssume(n >= 0 && n <= 1<<20)
	_ = lib.PrfPlus(h, s, n)
}
