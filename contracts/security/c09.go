//go:build verif

package security

import (
	"math/big"

	"github.com/free5gc/ike/message"
)

// C09 (exponents): locally generated exponents are unmodified draws from the system
// random source, lie in [2^128, 2^2048 - 2], and a failing source yields an error and
// no number / no key material - at any read, because every call of the source may fail
// in the verification conditions.  (That successive draws differ is a property of the
// source's distribution and is not decided.)
//
//verif:novariant security.GenerateRandomNumber#loop1
func lemma_C09_random() {
	n, err := GenerateRandomNumber()
	if verifRandFailed() {
		verifAssert(err != nil && n == nil, "C09/failing-random-source-gives-an-error-not-an-exponent")
		return
	}
	verifAssert(err == nil && n != nil, "C09/exponent-produced-when-the-source-works")
	lo, _ := new(big.Int).SetString("100000000000000000000000000000000", 16) // 2^128
	hi, _ := new(big.Int).SetString("100000000000000000000000000000000000000000000000000000000000000000000000000000000000000000000000000000000000000000000000000000000000000000000000000000000000000000000000000000000000000000000000000000000000000000000000000000000000000000000000000000000000000000000000000000000000000000000000000000000000000000000000000000000000000000000000000000000000000000000000000000000000000000000000000000000000000000000000000000000000000000000000000000000000000000000000000000000000000000000000000000000000000000000000000000000", 16) // 2^2048
	verifAssert(n.Cmp(lo) >= 0 && n.Cmp(hi) < 0, "C09/exponent-between-2^128-and-2^2048")
	verifAssert(verifRandIntDrawn(n), "C09/exponent-is-an-unmodified-draw-from-the-system-source")
}

// the same through NewIKESAKey: a failing source produces an error rather than a key;
// otherwise the local public value has exactly the modulus length
//
//verif:novariant security.GenerateRandomNumber#loop1
//verif:bytes
//verif:summary security/lib.PrfPlus
func lemma_C09_NewIKESAKey(av, integID, prfID, dhID uint16, ke, nonce []byte, si, sr uint64) {
	verifAssume((av == 128 || av == 192 || av == 256) && (integID == 1 || integID == 2 || integID == 12) && (prfID == 1 || prfID == 2 || prfID == 5) && (dhID == 2 || dhID == 14))
	p := verifProposal(message.ENCR_AES_CBC, message.AttributeTypeKeyLength, av, integID, prfID, dhID, true, 0, false)
	sa, pub, err := NewIKESAKey(p, ke, nonce, si, sr)
	if verifRandFailed() {
		verifAssert(err != nil && sa == nil && pub == nil, "C09/failing-random-source-gives-an-error-not-a-key")
		return
	}
	if err == nil {
		n := 128
		if dhID == 14 {
			n = 256
		}
		verifAssert(sa != nil && len(pub) == n, "C09/local-public-value-has-the-modulus-length")
	}
}
