//go:build verif

package security

import (
	"github.com/free5gc/ike/message"
	"github.com/free5gc/ike/security/dh"
	"github.com/free5gc/ike/security/encr"
	"github.com/free5gc/ike/security/esn"
	"github.com/free5gc/ike/security/integ"
	"github.com/free5gc/ike/security/prf"
)

// single-choice proposal: at most one transform per type, built with the library's
// own builder
func verifProposal(encrID, encrAt, encrAv, integID, prfID, dhID uint16, withDH bool, esnID uint16, withESN bool) *message.Proposal {
	p := new(message.Proposal)
	at, av := encrAt, encrAv
	p.EncryptionAlgorithm.BuildTransform(message.TypeEncryptionAlgorithm, encrID, &at, &av, nil)
	p.IntegrityAlgorithm.BuildTransform(message.TypeIntegrityAlgorithm, integID, nil, nil, nil)
	p.PseudorandomFunction.BuildTransform(message.TypePseudorandomFunction, prfID, nil, nil, nil)
	if withDH {
		p.DiffieHellmanGroup.BuildTransform(message.TypeDiffieHellmanGroup, dhID, nil, nil, nil)
	}
	if withESN {
		p.ExtendedSequenceNumbers.BuildTransform(message.TypeExtendedSequenceNumbers, esnID, nil, nil, nil)
	}
	return p
}

func verifEncrOK(id, at, av uint16) bool {
	return id == 12 && at == 14 && (av == 128 || av == 192 || av == 256)
}

// building an IKE SA from a proposal: unsupported -> error and no SA; otherwise the
// algorithms are exactly those the proposal's transforms decode to, and the SA
// converts back to the same single-choice proposal
//
//verif:novariant security.GenerateRandomNumber#loop1
//verif:bytes
//verif:summary security/lib.PrfPlus
func lemma_C11_NewIKESAKey(encrID, at, av, integID, prfID, dhID uint16, ke, nonce []byte, si, sr uint64) {
	p := verifProposal(encrID, at, av, integID, prfID, dhID, true, 0, false)
	sa, _, err := NewIKESAKey(p, ke, nonce, si, sr)
	supported := verifEncrOK(encrID, at, av) && (integID == 1 || integID == 2 || integID == 12) && (prfID == 1 || prfID == 2 || prfID == 5) && (dhID == 2 || dhID == 14)
	if !supported {
		verifAssert(err != nil && sa == nil, "C11/sa/unsupported-proposal-is-an-error")
		return
	}
	if err != nil {
		verifAssert(sa == nil, "C11/sa/error-means-no-sa")
		return
	}
	verifAssert(sa != nil && sa.EncrInfo == encr.DecodeTransform(p.EncryptionAlgorithm[0]) && sa.IntegInfo == integ.DecodeTransform(p.IntegrityAlgorithm[0]) &&
		sa.PrfInfo == prf.DecodeTransform(p.PseudorandomFunction[0]) && sa.DhInfo == dh.DecodeTransform(p.DiffieHellmanGroup[0]), "C11/sa/algorithms-are-those-of-the-proposal")
	verifAssert(sa.EncrInfo != nil && sa.IntegInfo != nil && sa.PrfInfo != nil && sa.DhInfo != nil, "C11/sa/all-algorithms-present")
	q, e2 := sa.ToProposal()
	verifAssert(e2 == nil && q.ProtocolID == message.TypeIKE && len(q.EncryptionAlgorithm) == 1 && len(q.IntegrityAlgorithm) == 1 && len(q.PseudorandomFunction) == 1 && len(q.DiffieHellmanGroup) == 1, "C11/sa/to-proposal-single-choice")
	verifAssert(q.EncryptionAlgorithm[0].TransformID == encrID && q.EncryptionAlgorithm[0].AttributeType == 14 && q.EncryptionAlgorithm[0].AttributeValue == av &&
		q.IntegrityAlgorithm[0].TransformID == integID && q.PseudorandomFunction[0].TransformID == prfID && q.DiffieHellmanGroup[0].TransformID == dhID, "C11/sa/to-proposal-same-algorithms")
}

func lemma_C11_NewChildSAKey(encrID, at, av, integID, dhID uint16, withDH bool, esnID uint16) {
	p := verifProposal(encrID, at, av, integID, 0, dhID, withDH, esnID, true)
	c, err := NewChildSAKeyByProposal(p)
	supported := verifEncrOK(encrID, at, av) && (integID == 1 || integID == 2 || integID == 12) && (!withDH || dhID == 2 || dhID == 14) && (esnID == 0 || esnID == 1)
	if !supported {
		verifAssert(err != nil && c == nil, "C11/child/unsupported-proposal-is-an-error")
		return
	}
	verifAssert(err == nil && c != nil, "C11/child/supported-proposal-is-accepted")
	verifAssert(c.EncrKInfo == encr.DecodeTransformChildSA(p.EncryptionAlgorithm[0]) && c.IntegKInfo == integ.DecodeTransformChildSA(p.IntegrityAlgorithm[0]), "C11/child/algorithms-are-those-of-the-proposal")
	verifAssert(c.EncrKInfo != nil && c.IntegKInfo != nil && (c.DhInfo != nil) == withDH && c.EsnInfo.GetNeedESN() == (esnID == 1), "C11/child/all-algorithms-present")
	q, e2 := c.ToProposal()
	verifAssert(e2 == nil && q.ProtocolID == message.TypeESP && len(q.EncryptionAlgorithm) == 1 && len(q.IntegrityAlgorithm) == 1 && len(q.ExtendedSequenceNumbers) == 1, "C11/child/to-proposal-single-choice")
	verifAssert(q.EncryptionAlgorithm[0].TransformID == encrID && q.EncryptionAlgorithm[0].AttributeValue == av && q.IntegrityAlgorithm[0].TransformID == integID &&
		q.ExtendedSequenceNumbers[0].TransformID == esnID, "C11/child/to-proposal-same-algorithms")
	var _ = esn.String_ESN_ENABLE
}
