//go:build verif

package dh

import "math/big"

// C09.  The primes below were NOT copied from the repository: they were computed from
// the defining formulas of RFC 2409 6.2 / RFC 3526 3,
//     p = 2^n - 2^(n-64) - 1 + 2^64 * ( floor(2^k * pi) + c ),
// (n,k,c) = (1024,894,129093) and (2048,1918,124476), by /verif/tools/rfc_primes.py.
const (
	verifRfc2409Prime = "FFFFFFFFFFFFFFFFC90FDAA22168C234C4C6628B80DC1CD129024E088A67CC74020BBEA63B139B22514A08798E3404DDEF9519B3CD3A431B302B0A6DF25F14374FE1356D6D51C245E485B576625E7EC6F44C42E9A637ED6B0BFF5CB6F406B7EDEE386BFB5A899FA5AE9F24117C4B1FE649286651ECE65381FFFFFFFFFFFFFFFF"
	verifRfc3526Prime = "FFFFFFFFFFFFFFFFC90FDAA22168C234C4C6628B80DC1CD129024E088A67CC74020BBEA63B139B22514A08798E3404DDEF9519B3CD3A431B302B0A6DF25F14374FE1356D6D51C245E485B576625E7EC6F44C42E9A637ED6B0BFF5CB6F406B7EDEE386BFB5A899FA5AE9F24117C4B1FE649286651ECE45B3DC2007CB8A163BF0598DA48361C55D39A69163FA8FD24CF5F83655D23DCA3AD961C62F356208552BB9ED529077096966D670C354E4ABC9804F1746C08CA18217C32905E462E36CE3BE39E772C180E86039B2783A2EC07A28FB5C55DF06F4C52C9DE2BCBF6955817183995497CEA956AE515D2261898FA051015728E5A8AACAA68FFFFFFFFFFFFFFFF"
)

func verifGroup(sel uint8) (DHType, *big.Int, int) {
	if sel%2 == 0 {
		p, _ := new(big.Int).SetString(verifRfc2409Prime, 16)
		return StrToType(DH_1024_BIT_MODP), p, 128
	}
	p, _ := new(big.Int).SetString(verifRfc3526Prime, 16)
	return StrToType(DH_2048_BIT_MODP), p, 256
}

// left-padded big-endian encoding of v in exactly n octets (I2OSP)
func verifI2OSP(v *big.Int, n int) []byte {
	b := v.Bytes()
	out := make([]byte, n-len(b))
	return append(out, b...)
}

// the group constants are the RFC's: prime, generator 2, modulus length
func lemma_C09_constants() {
	g2 := dhTypes[DH_1024_BIT_MODP].(*Dh1024BitModp)
	p2, ok2 := new(big.Int).SetString(verifRfc2409Prime, 16)
	verifAssert(ok2 && g2.factor.Cmp(p2) == 0, "C09/group2-prime-is-rfc2409")
	verifAssert(g2.generator.Cmp(big.NewInt(2)) == 0 && g2.factorBytesLength == 128, "C09/group2-generator-2-length-128")
	g14 := dhTypes[DH_2048_BIT_MODP].(*DH2048BitModp)
	p14, ok14 := new(big.Int).SetString(verifRfc3526Prime, 16)
	verifAssert(ok14 && g14.factor.Cmp(p14) == 0, "C09/group14-prime-is-rfc3526")
	verifAssert(g14.generator.Cmp(big.NewInt(2)) == 0 && g14.factorBytesLength == 256, "C09/group14-generator-2-length-256")
}

// public value = I2OSP(2^x mod p, L), shared secret = I2OSP(y^x mod p, L): exactly L
// octets, leading zeros preserved, for every exponent x >= 0 and every peer value y >= 0
//
//verif:bytes
func lemma_C09_values(sel uint8, xb, yb []byte) {
	g, p, n := verifGroup(sel)
	x := new(big.Int).SetBytes(xb)
	y := new(big.Int).SetBytes(yb)
	pub := g.GetPublicValue(x)
	verifAssert(len(pub) == n, "C09/public-value-has-the-modulus-length")
	want := verifI2OSP(new(big.Int).Exp(big.NewInt(2), x, p), n)
	verifAssert(verifBytesEq(pub, want), "C09/public-value-is-2-to-the-x-mod-p-left-padded")
	sh := g.GetSharedKey(x, y)
	verifAssert(len(sh) == n, "C09/shared-secret-has-the-modulus-length")
	wantS := verifI2OSP(new(big.Int).Exp(y, x, p), n)
	verifAssert(verifBytesEq(sh, wantS), "C09/shared-secret-is-y-to-the-x-mod-p-left-padded")
}

// agreement: each party raises the other's public number (the number its public value
// encodes, by the lemma above) to its own exponent
//
func verifAgreement(sel uint8, ab, bb []byte) {
	g, p, _ := verifGroup(sel)
	a := new(big.Int).SetBytes(ab)
	b := new(big.Int).SetBytes(bb)
	ya := new(big.Int).Exp(big.NewInt(2), a, p) // the number A's public value encodes
	yb := new(big.Int).Exp(big.NewInt(2), b, p)
	sab := g.GetSharedKey(a, yb)
	sba := g.GetSharedKey(b, ya)
	verifAssert(verifBytesEq(sab, sba), "C09/both-parties-compute-the-same-secret")
}

//verif:bytes
func lemma_C09_agreement_group2(ab, bb []byte) { verifAgreement(0, ab, bb) }

//verif:bytes
func lemma_C09_agreement_group14(ab, bb []byte) { verifAgreement(1, ab, bb) }
