//go:build verif

package dh

import "github.com/free5gc/ike/message"

func lemma_C11_dh_decode(tt uint8, id uint16, present bool, format uint8, at, av uint16, vv []byte) {
	t := &message.Transform{TransformType: tt, TransformID: id, AttributePresent: present, AttributeFormat: format,
		AttributeType: at, AttributeValue: av, VariableLengthAttributeValue: vv}
	d := DecodeTransform(t)
	if d != nil {
		verifAssert(d.TransformID() == id, "C11/dh/never-a-different-identifier")
	} else {
		verifAssert(id != 2 && id != 14, "C11/dh/advertised-groups-are-recognised")
	}
}

func lemma_C11_dh_roundtrip(second bool) {
	name, id := DH_1024_BIT_MODP, uint16(2)
	if second {
		name, id = DH_2048_BIT_MODP, 14
	}
	a := StrToType(name)
	verifAssert(a != nil && a.TransformID() == id, "C11/dh/advertised-name-resolves")
	tr := ToTransform(a)
	verifAssert(tr.TransformType == 4 && tr.TransformID == id && !tr.AttributePresent, "C11/dh/transform-fields")
	verifAssert(DecodeTransform(tr) == a, "C11/dh/transform-decodes-to-the-same-group")
}
