//go:build verif

package dh

import "github.com/free5gc/ike/message"

func lemma_C11_dh_decode(tt uint8, id uint16, present bool, format uint8, at, av uint16, vv []byte) {
	t := &message.Transform{TransformType: tt, TransformID: id, AttributePresent: present, AttributeFormat: format,
		AttributeType: at, AttributeValue: av, VariableLengthAttributeValue: vv}
	d := DecodeTransform(t)
	if d != nil {
		verifAssert(d.TransformID() == id, "C11/dh/never-a-different-identifier")
	} else {
		verifAssert(id != 2 && id != 14, "C11/dh/advertised-groups-are-recognised")
	}
}

func lemma_C11_dh_roundtrip(second bool, jt uint8, jid uint16, jp bool, jf uint8, jat, jav uint16) {
	name, id := DH_1024_BIT_MODP, uint16(2)
	if second {
		name, id = DH_2048_BIT_MODP, 14
	}
	a := StrToType(name)
	verifAssert(a != nil && a.TransformID() == id, "C11/dh/advertised-name-resolves")
	tr := ToTransform(a)
	verifAssert(tr.TransformType == 4 && tr.TransformID == id && !tr.AttributePresent, "C11/dh/transform-fields")
	verifAssert(DecodeTransform(tr) == a, "C11/dh/transform-decodes-to-the-same-group")
	// whatever the caller then does to the transform it was handed, a later conversion
	// of the same algorithm is unaffected: every conversion returns its own object
	tr.TransformType, tr.TransformID, tr.AttributePresent, tr.AttributeFormat, tr.AttributeType, tr.AttributeValue = jt, jid, jp, jf, jat, jav
	tr2 := ToTransform(a)
	verifAssert(tr2.TransformType == 4 && tr2.TransformID == id && !tr2.AttributePresent && DecodeTransform(tr2) == a, "C11/dh/conversion-unaffected-by-edits-of-earlier-results")
}
