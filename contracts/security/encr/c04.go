//go:build verif

package encr

func verifCipher(sel uint8, key []byte) *EncrAesCbcCrypto {
	var t ENCRType
	switch sel % 3 {
	case 0:
		t = StrToType(ENCR_AES_CBC_128)
	case 1:
		t = StrToType(ENCR_AES_CBC_192)
	default:
		t = StrToType(ENCR_AES_CBC_256)
	}
	c, err := t.NewCrypto(key)
	verifAssume(err == nil)
	return c.(*EncrAesCbcCrypto)
}

// C04 / C10: cipher decryption of arbitrary ciphertext never crashes.
func lemma_C04_CipherDecrypt(sel uint8, key, cipherText []byte) {
	c := verifCipher(sel, key)
	_, _ = c.Decrypt(cipherText)
}
