//go:build verif

package encr

import (
	"crypto/aes"
	"crypto/cipher"
)

// C10.  AES and CBC are uninterpreted functions over abstract byte strings; the
// "textbook AES-CBC" of the property is crypto/aes + crypto/cipher used directly in
// the lemmas below (the same function symbols), with the one axiom
// CBCdec(k, iv, CBCenc(k, iv, x)) = x.

func verifDescriptor(sel uint8) (ENCRType, int) {
	switch sel % 3 {
	case 0:
		return StrToType(ENCR_AES_CBC_128), 16
	case 1:
		return StrToType(ENCR_AES_CBC_192), 24
	}
	return StrToType(ENCR_AES_CBC_256), 32
}

// keys of any other size are refused; objects the library creates carry no injected
// IV or padding
func lemma_C10_NewCrypto(sel uint8, key []byte) {
	t, n := verifDescriptor(sel)
	c, err := t.NewCrypto(key)
	verifAssert((err == nil) == (len(key) == n), "C10/key-size-checked")
	if err == nil {
		x, ok := c.(*EncrAesCbcCrypto)
		verifAssert(ok && x != nil && x.Block != nil && x.Iv == nil && x.Padding == nil, "C10/fresh-object-has-no-fixed-iv-or-padding")
	} else {
		verifAssert(c == nil, "C10/no-object-for-a-refused-key")
	}
}

// size law, IV provenance, textbook decryption of the body, error on a failing source
//
//verif:bytes
//verif:maxlen plain=1099511627776
//verif:unroll security/lib.PKCS7Padding#loop1 16 assert
func lemma_C10_Encrypt(sel uint8, key, plain []byte) {
	c := verifCipher(sel, key)
	n := len(plain)
	p0 := append([]byte{}, plain...)
	k0 := append([]byte{}, key...) // (Encrypt pads in place: plain's spare capacity may overlap key)
	ct, err := c.Encrypt(plain)
	if verifRandFailed() {
		verifAssert(err != nil && ct == nil, "C10/failing-random-source-gives-an-error-not-a-ciphertext")
		return
	}
	verifAssert(err == nil, "C10/encrypt-succeeds-when-the-source-works")
	k16 := len(ct) - 16
	verifAssert(len(ct) >= 32 && k16%16 == 0 && n < k16 && k16 <= n+256, "C10/size-law")
	verifAssert(k16 <= n+16, "C10/minimal-padding")
	verifAssert(verifRandDrawn(ct[:16]), "C10/iv-is-this-calls-draw-from-the-random-source")
	verifAssert(c.Iv == nil && c.Padding == nil, "C10/encrypt-retains-nothing-in-the-object")
	// textbook AES-CBC decryption of the body under the leading 16 octets as IV
	blk, e2 := aes.NewCipher(k0)
	verifAssume(e2 == nil)
	out := make([]byte, k16)
	cipher.NewCBCDecrypter(blk, ct[:16]).CryptBlocks(out, ct[16:])
	verifAssert(verifBytesEq(out[:n], p0), "C10/body-decrypts-to-the-plaintext")
	verifAssert(int(out[k16-1]) == k16-n-1, "C10/last-octet-is-the-pad-length")
}

// decrypting an encryption returns the plaintext
//
//verif:bytes
//verif:maxlen plain=1099511627776
//verif:unroll security/lib.PKCS7Padding#loop1 16 assert
func lemma_C10_Inverse(sel uint8, key, plain []byte) {
	c := verifCipher(sel, key)
	p0 := append([]byte{}, plain...)
	ct, err := c.Encrypt(plain)
	if err != nil {
		return
	}
	p, err2 := c.Decrypt(ct)
	verifAssert(err2 == nil, "C10/decrypt-accepts-an-encryption")
	verifAssert(verifBytesEq(p, p0), "C10/decrypt-inverts-encrypt")
}

// bad ciphertext: too short, misaligned, impossible pad length -> error; otherwise the
// textbook decryption stripped of (last octet + 1) octets
//
//verif:bytes
func lemma_C10_Decrypt(sel uint8, key, ct []byte) {
	c := verifCipher(sel, key)
	p, err := c.Decrypt(ct)
	if len(ct) < 32 || (len(ct)-16)%16 != 0 {
		verifAssert(err != nil, "C10/short-or-misaligned-ciphertext-refused")
		return
	}
	blk, e2 := aes.NewCipher(key)
	verifAssume(e2 == nil)
	m := len(ct) - 16
	out := make([]byte, m)
	cipher.NewCBCDecrypter(blk, ct[:16]).CryptBlocks(out, ct[16:])
	pad := int(out[m-1])
	if pad+1 > m {
		verifAssert(err != nil, "C10/impossible-pad-length-refused")
		return
	}
	verifAssert(err == nil, "C10/any-possible-pad-length-0-255-accepted")
	verifAssert(verifBytesEq(p, out[:m-pad-1]), "C10/result-is-the-textbook-decryption-without-padding")
}
