//go:build verif

package encr

import "github.com/free5gc/ike/message"

// C11 (encryption): a received transform is mapped to an algorithm only if the
// identifier is ENCR_AES_CBC (12) and it carries the key-length attribute (type 14)
// with 128/192/256; the algorithm found has exactly that identifier and key size.
// All 65536 identifiers x all attribute types/values/encodings are one symbolic query.
func lemma_C11_encr_decode(tt uint8, id uint16, present bool, format uint8, at, av uint16, vv []byte) {
	t := &message.Transform{TransformType: tt, TransformID: id, AttributePresent: present, AttributeFormat: format,
		AttributeType: at, AttributeValue: av, VariableLengthAttributeValue: vv}
	d := DecodeTransform(t)
	if d != nil {
		verifAssert(d.TransformID() == id && id == 12, "C11/encr/never-a-different-identifier")
		verifAssert(at == 14 && int(av) == 8*d.GetKeyLength(), "C11/encr/never-a-different-key-size")
	} else {
		verifAssert(!(id == 12 && at == 14 && (av == 128 || av == 192 || av == 256)), "C11/encr/advertised-algorithms-are-recognised")
	}
	k := DecodeTransformChildSA(t)
	if k != nil {
		verifAssert(k.TransformID() == id && id == 12, "C11/encrK/never-a-different-identifier")
		verifAssert(at == 14 && int(av) == 8*k.GetKeyLength(), "C11/encrK/never-a-different-key-size")
	} else {
		verifAssert(!(id == 12 && at == 14 && (av == 128 || av == 192 || av == 256)), "C11/encrK/advertised-algorithms-are-recognised")
	}
}

func verifEncrName(sel uint8) (string, int) {
	switch sel % 3 {
	case 0:
		return ENCR_AES_CBC_128, 16
	case 1:
		return ENCR_AES_CBC_192, 24
	}
	return ENCR_AES_CBC_256, 32
}

// every advertised algorithm -> transform -> the same algorithm (registry singleton),
// key sizes as in RFC 3602 (16/24/32 octets)
func lemma_C11_encr_roundtrip(sel uint8, jt uint8, jid uint16, jp bool, jf uint8, jat, jav uint16) {
	name, keyLen := verifEncrName(sel)
	a := StrToType(name)
	verifAssert(a != nil, "C11/encr/advertised-name-resolves")
	verifAssert(a.TransformID() == 12 && a.GetKeyLength() == keyLen, "C11/encr/rfc3602-key-length")
	tr, err := ToTransform(a)
	verifAssert(err == nil && tr.TransformType == 1 && tr.TransformID == 12 && tr.AttributePresent && tr.AttributeFormat == 1 &&
		tr.AttributeType == 14 && int(tr.AttributeValue) == 8*keyLen && len(tr.VariableLengthAttributeValue) == 0, "C11/encr/transform-fields")
	verifAssert(DecodeTransform(tr) == a, "C11/encr/transform-decodes-to-the-same-algorithm")
	k := StrToKType(name)
	verifAssert(k != nil && k.TransformID() == 12 && k.GetKeyLength() == keyLen, "C11/encrK/rfc3602-key-length")
	tk, errk := ToTransformChildSA(k)
	verifAssert(errk == nil && tk.TransformType == 1 && tk.TransformID == 12 && tk.AttributePresent && tk.AttributeFormat == 1 &&
		tk.AttributeType == 14 && int(tk.AttributeValue) == 8*keyLen, "C11/encrK/transform-fields")
	verifAssert(DecodeTransformChildSA(tk) == k, "C11/encrK/transform-decodes-to-the-same-algorithm")
	// whatever the caller then does to the transform it was handed, a later conversion
	// of the same algorithm is unaffected: every conversion returns its own object
	tr.TransformType, tr.TransformID, tr.AttributePresent, tr.AttributeFormat, tr.AttributeType, tr.AttributeValue = jt, jid, jp, jf, jat, jav
	tk.TransformType, tk.TransformID, tk.AttributePresent, tk.AttributeFormat, tk.AttributeType, tk.AttributeValue = jt, jid, jp, jf, jat, jav
	tr2, err2 := ToTransform(a)
	verifAssert(err2 == nil && tr2.TransformID == 12 && tr2.AttributePresent && tr2.AttributeFormat == 1 && tr2.AttributeType == 14 && int(tr2.AttributeValue) == 8*keyLen && DecodeTransform(tr2) == a, "C11/encr/conversion-unaffected-by-edits-of-earlier-results")
	tk2, errk2 := ToTransformChildSA(k)
	verifAssert(errk2 == nil && tk2.TransformID == 12 && tk2.AttributePresent && tk2.AttributeFormat == 1 && tk2.AttributeType == 14 && int(tk2.AttributeValue) == 8*keyLen && DecodeTransformChildSA(tk2) == k, "C11/encrK/conversion-unaffected-by-edits-of-earlier-results")
}

func lemma_C11_encr_unknown_name(name string) {
	verifAssume(name != ENCR_AES_CBC_128 && name != ENCR_AES_CBC_192 && name != ENCR_AES_CBC_256)
	verifAssert(StrToType(name) == nil && StrToKType(name) == nil, "C11/encr/unknown-name-is-unsupported")
}
