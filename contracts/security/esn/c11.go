//go:build verif

package esn

import "github.com/free5gc/ike/message"

func lemma_C11_esn_decode(tt uint8, id uint16, present bool, format uint8, at, av uint16, vv []byte) {
	t := &message.Transform{TransformType: tt, TransformID: id, AttributePresent: present, AttributeFormat: format,
		AttributeType: at, AttributeValue: av, VariableLengthAttributeValue: vv}
	d, err := DecodeTransform(t)
	if err == nil {
		verifAssert(d.TransformID() == id && (id == 0 || id == 1) && d.GetNeedESN() == (id == 1), "C11/esn/never-a-different-identifier")
	} else {
		verifAssert(id != 0 && id != 1, "C11/esn/advertised-values-are-recognised")
	}
}

func lemma_C11_esn_roundtrip(enable bool, jt uint8, jid uint16, jp bool, jf uint8, jat, jav uint16) {
	name := String_ESN_DISABLE
	if enable {
		name = String_ESN_ENABLE
	}
	a, err := StrToType(name)
	verifAssert(err == nil && a.GetNeedESN() == enable, "C11/esn/advertised-name-resolves")
	tr := ToTransform(a)
	var id uint16
	if enable {
		id = 1
	}
	verifAssert(tr.TransformType == 5 && tr.TransformID == id && !tr.AttributePresent, "C11/esn/transform-fields")
	b, err2 := DecodeTransform(tr)
	verifAssert(err2 == nil && b.GetNeedESN() == enable, "C11/esn/transform-decodes-to-the-same-value")
	// whatever the caller then does to the transform it was handed, a later conversion
	// of the same algorithm is unaffected: every conversion returns its own object
	tr.TransformType, tr.TransformID, tr.AttributePresent, tr.AttributeFormat, tr.AttributeType, tr.AttributeValue = jt, jid, jp, jf, jat, jav
	tr2 := ToTransform(a)
	verifAssert(tr2.TransformType == 5 && tr2.TransformID == id && !tr2.AttributePresent, "C11/esn/conversion-unaffected-by-edits-of-earlier-results")
}
