//go:build verif

package integ

import "github.com/free5gc/ike/message"

func verifT(tt uint8, id uint16, present bool, format uint8, at, av uint16, vv []byte) *message.Transform {
	return &message.Transform{TransformType: tt, TransformID: id, AttributePresent: present, AttributeFormat: format,
		AttributeType: at, AttributeValue: av, VariableLengthAttributeValue: vv}
}

// a received integrity transform is mapped only to the algorithm with its own
// identifier (1 = HMAC-MD5-96, 2 = HMAC-SHA1-96, 12 = HMAC-SHA2-256-128)
func lemma_C11_integ_decode(tt uint8, id uint16, present bool, format uint8, at, av uint16, vv []byte) {
	t := verifT(tt, id, present, format, at, av, vv)
	d := DecodeTransform(t)
	if d != nil {
		verifAssert(d.TransformID() == id, "C11/integ/never-a-different-identifier")
	} else {
		verifAssert(id != 1 && id != 2 && id != 12, "C11/integ/advertised-algorithms-are-recognised")
	}
	k := DecodeTransformChildSA(t)
	if k != nil {
		verifAssert(k.TransformID() == id, "C11/integK/never-a-different-identifier")
	} else {
		verifAssert(id != 1 && id != 2 && id != 12, "C11/integK/advertised-algorithms-are-recognised")
	}
}

// lengths from RFC 2403 (MD5: key 16, ICV 12), RFC 2404 (SHA-1: key 20, ICV 12),
// RFC 4868 (SHA-256-128: key 32, ICV 16)
func lemma_C11_integ_roundtrip(sel uint8, jt uint8, jid uint16, jp bool, jf uint8, jat, jav uint16) {
	name, id, keyLen, outLen := AUTH_HMAC_MD5_96, uint16(1), 16, 12
	switch sel % 3 {
	case 1:
		name, id, keyLen, outLen = AUTH_HMAC_SHA1_96, 2, 20, 12
	case 2:
		name, id, keyLen, outLen = AUTH_HMAC_SHA2_256_128, 12, 32, 16
	}
	a := StrToType(name)
	verifAssert(a != nil && a.TransformID() == id && a.GetKeyLength() == keyLen && a.GetOutputLength() == outLen, "C11/integ/rfc-lengths")
	tr := ToTransform(a)
	verifAssert(tr.TransformType == 3 && tr.TransformID == id && !tr.AttributePresent && len(tr.VariableLengthAttributeValue) == 0, "C11/integ/transform-fields")
	verifAssert(DecodeTransform(tr) == a, "C11/integ/transform-decodes-to-the-same-algorithm")
	k := StrToKType(name)
	verifAssert(k != nil && k.TransformID() == id && k.GetKeyLength() == keyLen, "C11/integK/rfc-lengths")
	tk := ToTransformChildSA(k)
	verifAssert(tk.TransformType == 3 && tk.TransformID == id && !tk.AttributePresent, "C11/integK/transform-fields")
	verifAssert(DecodeTransformChildSA(tk) == k, "C11/integK/transform-decodes-to-the-same-algorithm")
	// whatever the caller then does to the transform it was handed, a later conversion
	// of the same algorithm is unaffected: every conversion returns its own object
	tr.TransformType, tr.TransformID, tr.AttributePresent, tr.AttributeFormat, tr.AttributeType, tr.AttributeValue = jt, jid, jp, jf, jat, jav
	tk.TransformType, tk.TransformID, tk.AttributePresent, tk.AttributeFormat, tk.AttributeType, tk.AttributeValue = jt, jid, jp, jf, jat, jav
	tr2, tk2 := ToTransform(a), ToTransformChildSA(k)
	verifAssert(tr2.TransformType == 3 && tr2.TransformID == id && !tr2.AttributePresent && DecodeTransform(tr2) == a, "C11/integ/conversion-unaffected-by-edits-of-earlier-results")
	verifAssert(tk2.TransformType == 3 && tk2.TransformID == id && !tk2.AttributePresent && DecodeTransformChildSA(tk2) == k, "C11/integK/conversion-unaffected-by-edits-of-earlier-results")
}
