//go:build verif

package integ

// Intrinsics recognised by the verifier.  They are executable so that lemma
// functions double as replay drivers (a failed verifAssert panics with its label;
// a failed verifAssume / verifRequires skips the case).

import "bytes"

type verifSkip struct{}

// verifBytesEq: same length and same octets (nil and empty are equal).
func verifBytesEq(a, b []byte) bool { return bytes.Equal(a, b) }

// verifSameSlice: the same window of the same backing array.
func verifSameSlice(a, b []byte) bool {
	return len(a) == len(b) && (len(a) == 0 || &a[0] == &b[0])
}

// verifFresh: the slice's backing array was allocated during the call under
// verification (always true at run time; ownership is a static obligation).
func verifFresh(a []byte) bool { return true }

func verifAssert(c bool, label string) {
	if !c {
		panic("verifAssert: " + label)
	}
}

func verifAssume(c bool) {
	if !c {
		panic(verifSkip{})
	}
}

func verifRequires(c bool) {
	if !c {
		panic(verifSkip{})
	}
}

func verifEnsures(c bool, label string) {
	if !c {
		panic("verifEnsures: " + label)
	}
}

// verifAny is a universally quantified int for the verifier; at run time it is an
// arbitrary representative.
func verifAny() int { return 0 }

func verifCover(label string) {}
