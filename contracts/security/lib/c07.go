//go:build verif

package lib

import (
	"crypto/hmac"
	"crypto/md5"
	"crypto/sha256"
	"hash"
)

// ---- prf+ of RFC 7296 2.13 ----
//
// (1) Per-iteration contract of PrfPlus, proved for every iteration (the loop is cut
//     at its head, so the number of blocks is unbounded):  whatever the hash object's
//     buffered state is when the iteration starts,
//         T(i) = prf(K, T(i-1) | S | i),   stream' = stream | T(i),   block' = T(i),  i' = i+1
//     where K is the key the hash object was created with and T(0) is empty.
// (2) Loop invariant: i >= 1; i = 1 => stream and block are empty; i > 1 => block is
//     the last Size() octets of stream.
// (1)+(2) characterise the result as prf+(K, S) truncated to streamLen by induction
// over the blocks, independently of the object's history (C08, C17).
// (3) As a cross-check the whole function is compared with a textbook prf+ for outputs
//     of up to 4 blocks (bounded stand-in).

//verif:invariant security/lib.PrfPlus loop1
func inv_C07_C08_C17_prfplus(prf hash.Hash, s, stream, block []byte, i int) bool {
	if i < 1 || i > len(stream)+1 { // (every block adds at least one octet: no overflow of i)
		return false
	}
	if !verifDisjoint(stream, s) { // the output buffer is the function's own: it never overlaps the seed
		return false
	}
	if i == 1 {
		return len(stream) == 0 && len(block) == 0
	}
	n := prf.Size()
	return len(stream) >= n && verifSameSlice(block, stream[len(stream)-n:])
}

func verifPrfBlock(prf hash.Hash, s, block_h []byte, i_h int) []byte {
	// the reference block, computed with the same keyed object from a clean state
	prf.Reset()
	prf.Write(block_h)
	prf.Write(s)
	prf.Write([]byte{byte(i_h)})
	return prf.Sum(nil)
}

//verif:step security/lib.PrfPlus loop1
func step_C07_C08_C17_prfplus_counts(prf hash.Hash, stream_h []byte, i_h int, stream []byte, i int) bool {
	return i == i_h+1 && len(stream) == len(stream_h)+prf.Size()
}

//verif:step security/lib.PrfPlus loop1
func step_C07_C08_C17_prfplus_prefix(prf hash.Hash, stream_h []byte, stream []byte) bool {
	return len(stream) >= len(stream_h) && verifBytesEq(stream[:len(stream_h)], stream_h)
}

//verif:step security/lib.PrfPlus loop1
func step_C07_C08_C17_prfplus(prf hash.Hash, s []byte, stream_h, block_h []byte, i_h int, stream, block []byte, i int) bool {
	t := verifPrfBlock(prf, s, block_h, i_h)
	if len(stream) != len(stream_h)+prf.Size() {
		return false
	}
	return verifBytesEq(stream[len(stream_h):], t) && verifBytesEq(block, t)
}

// running the function makes the step and invariant obligations part of C07/C08/C17
//
//verif:bytes
//verif:maxlen key=1099511627776 s=1099511627776
func lemma_C07_PrfPlus_steps(sel uint8, key, s, junk []byte, n int) {
	var h hash.Hash
	if sel%2 == 0 {
		h = hmac.New(sha256.New, key)
	} else {
		h = hmac.New(md5.New, key)
	}
	h.Write(junk) // arbitrary buffered state left by earlier use
	verifAssume(n >= 0 && n <= 1<<20)
	r := PrfPlus(h, s, n)
	verifAssert(len(r) == n, "C07/prfplus-returns-the-requested-length")
}

func verifRefPrfPlus(newHash func() hash.Hash, key, seed []byte, n int) []byte {
	var out, t []byte
	for i := 1; len(out) < n; i++ {
		h := hmac.New(newHash, key)
		h.Write(t)
		h.Write(seed)
		h.Write([]byte{byte(i)})
		t = h.Sum(nil)
		out = append(out, t...)
	}
	return out[:n]
}

func verifBlocks(h hash.Hash, nh func() hash.Hash, key, seed, junk []byte, n int) {
	h.Write(junk)
	r := PrfPlus(h, seed, n)
	ref := verifRefPrfPlus(nh, key, seed, n)
	verifAssert(verifBytesEq(r, ref), "C07/prfplus-equals-rfc7296-2.13")
}

//verif:bounded outputs of 4 blocks of HMAC-SHA-256 (97..128 octets)
//verif:bytes
//verif:maxlen key=1099511627776 seed=1099511627776
//verif:unroll security/lib.PrfPlus#loop1 5 assert
//verif:unroll security/lib.verifRefPrfPlus#loop1 5 assert
func lemma_C07_PrfPlus_blocks4_sha256(key, seed, junk []byte, n int) {
	verifAssume(n > 96 && n <= 128)
	verifBlocks(hmac.New(sha256.New, key), sha256.New, key, seed, junk, n)
}

//verif:bounded outputs of 3 blocks of HMAC-MD5 (33..48 octets)
//verif:bytes
//verif:maxlen key=1099511627776 seed=1099511627776
//verif:unroll security/lib.PrfPlus#loop1 4 assert
//verif:unroll security/lib.verifRefPrfPlus#loop1 4 assert
func lemma_C07_PrfPlus_blocks3_md5(key, seed, junk []byte, n int) {
	verifAssume(n > 32 && n <= 48)
	verifBlocks(hmac.New(md5.New, key), md5.New, key, seed, junk, n)
}

// Contract used by the callers of PrfPlus (GenerateKeyForIKESA, GenerateKeyForChildSA):
// the result is a function of (hash algorithm, key of the hash object, seed, length)
// only - not of the object's buffered state.  ASSUMED at call sites (the function
// symbol has no definition); what justifies it are (1) and (2) above.
//
//verif:contract security/lib.PrfPlus
func contract_PrfPlus(prf hash.Hash, s []byte, streamLen int) (r []byte) {
	verifRequires(prf != nil && streamLen >= 0)
	r = PrfPlus(prf, s, streamLen)
	spec := verifPrfPlusSpec(prf, s, streamLen)
	i := verifAny()
	verifEnsures(len(r) == streamLen && (!(0 <= i && i < streamLen) || r[i] == spec[i]), "C07/prfplus-is-a-function-of-key-seed-and-length")
	verifEnsures(verifFresh(r), "C07/prfplus-result-is-fresh")
	return
}
