//go:build verif

package prf

import "github.com/free5gc/ike/message"

func lemma_C11_prf_decode(tt uint8, id uint16, present bool, format uint8, at, av uint16, vv []byte) {
	t := &message.Transform{TransformType: tt, TransformID: id, AttributePresent: present, AttributeFormat: format,
		AttributeType: at, AttributeValue: av, VariableLengthAttributeValue: vv}
	d := DecodeTransform(t)
	if d != nil {
		verifAssert(d.TransformID() == id, "C11/prf/never-a-different-identifier")
	} else {
		verifAssert(id != 1 && id != 2 && id != 5, "C11/prf/advertised-algorithms-are-recognised")
	}
}

// key / output lengths: the hash output size (RFC 7296 2.13: preferred key size of an
// HMAC PRF is its output size): MD5 16, SHA-1 20, SHA-256 32
func lemma_C11_prf_roundtrip(sel uint8, jt uint8, jid uint16, jp bool, jf uint8, jat, jav uint16) {
	name, id, n := PRF_HMAC_MD5, uint16(1), 16
	switch sel % 3 {
	case 1:
		name, id, n = PRF_HMAC_SHA1, 2, 20
	case 2:
		name, id, n = PRF_HMAC_SHA2_256, 5, 32
	}
	a := StrToType(name)
	verifAssert(a != nil && a.TransformID() == id && a.GetKeyLength() == n && a.GetOutputLength() == n, "C11/prf/rfc-lengths")
	tr := ToTransform(a)
	verifAssert(tr.TransformType == 2 && tr.TransformID == id && !tr.AttributePresent, "C11/prf/transform-fields")
	verifAssert(DecodeTransform(tr) == a, "C11/prf/transform-decodes-to-the-same-algorithm")
	// whatever the caller then does to the transform it was handed, a later conversion
	// of the same algorithm is unaffected: every conversion returns its own object
	tr.TransformType, tr.TransformID, tr.AttributePresent, tr.AttributeFormat, tr.AttributeType, tr.AttributeValue = jt, jid, jp, jf, jat, jav
	tr2 := ToTransform(a)
	verifAssert(tr2.TransformType == 2 && tr2.TransformID == id && !tr2.AttributePresent && DecodeTransform(tr2) == a, "C11/prf/conversion-unaffected-by-edits-of-earlier-results")
}
