//go:build verif

package prf

// Intrinsics recognised by the verifier.  They are executable so that lemma
// functions double as replay drivers (a failed verifAssert panics with its label;
// a failed verifAssume / verifRequires skips the case).

import (
	"bytes"
	"hash"
	"math/big"
	"unsafe"
)

type verifSkip struct{}

// verifBytesEq: same length and same octets (nil and empty are equal).
func verifBytesEq(a, b []byte) bool { return bytes.Equal(a, b) }

// verifSameSlice: the same window of the same backing array.
func verifSameSlice(a, b []byte) bool {
	return len(a) == len(b) && (len(a) == 0 || &a[0] == &b[0])
}

// verifDisjoint: the two slices share no memory (different backing arrays, or one of
// them has no storage at all).
func verifDisjoint(a, b []byte) bool {
	if cap(a) == 0 || cap(b) == 0 {
		return true
	}
	a0 := uintptr(unsafe.Pointer(unsafe.SliceData(a)))
	b0 := uintptr(unsafe.Pointer(unsafe.SliceData(b)))
	return a0+uintptr(cap(a)) <= b0 || b0+uintptr(cap(b)) <= a0
}

// verifFresh: the slice's backing array was allocated during the call under
// verification (always true at run time; ownership is a static obligation).
func verifFresh(a []byte) bool { return true }

// verifFailures collects the labels of assertions that failed in this run (a replay
// reports all of them; execution continues so that later labels are reached too).
var verifFailures []string

func verifAssert(c bool, label string) {
	if !c {
		verifFailures = append(verifFailures, label)
	}
}

func verifAssume(c bool) {
	if !c {
		panic(verifSkip{})
	}
}

func verifRequires(c bool) {
	if !c {
		panic(verifSkip{})
	}
}

func verifEnsures(c bool, label string) {
	if !c {
		verifFailures = append(verifFailures, label)
	}
}

// verifAny is a universally quantified int for the verifier; at run time it is an
// arbitrary representative.
func verifAny() int { return 0 }

func verifCover(label string) {}

// verifRandDrawn: s holds exactly the octets of one successful read of the system
// random source made during the execution under verification (static obligation; at
// run time the provenance of octets cannot be observed).
func verifRandDrawn(s []byte) bool { return true }

// verifRandFailed: some read of the system random source failed during the execution
// under verification (never at run time, where the real source is used).
func verifRandFailed() bool { return false }

// verifPrfPlusSpec: prf+ (RFC 7296 2.13) of the keyed object prf over seed, first n
// octets.  For the verifier an uninterpreted function of (algorithm, key, seed, n).
func verifPrfPlusSpec(prf hash.Hash, seed []byte, n int) []byte {
	var out, t []byte
	for i := 1; len(out) < n; i++ {
		prf.Reset()
		prf.Write(t)
		prf.Write(seed)
		prf.Write([]byte{byte(i)})
		t = prf.Sum(nil)
		out = append(out, t...)
	}
	return out[:n]
}

// verifRandIntDrawn: x is exactly a value returned by a successful crypto/rand.Int call
// made during the execution under verification (static obligation).
func verifRandIntDrawn(x *big.Int) bool { return x != nil }

// Frame condition of a lemma (engine: every write between Begin and End goes to an
// object allocated in between or to an allowed one); no-ops when executed.
func verifFrameBegin() int                      { return 0 }
func verifFrameAllow(mark int, obj interface{}) {}
func verifFrameAllowKind(mark int, kind string) {}
func verifFrameEnd(mark int, label string)      {}
