#!/bin/bash
# copies message/verif.go (the intrinsics) into every package that has contracts
cd "$(dirname "$0")"
for d in eap:eap root:ike security:security security/encr:encr security/integ:integ security/prf:prf security/dh:dh security/esn:esn security/lib:lib; do
  dir=${d%%:*}; pk=${d##*:}; mkdir -p $dir; sed "s/^package message/package $pk/" message/verif.go > $dir/verif.go
done
