package main

// The abstract byte-string layer (DESIGN.md 2.4, as built).
//
// A byte-string *value* is an Int identifier v with two uninterpreted observers
//     blen(v) >= 0            its length
//     bat(v, j) in 0..255     its j-th octet
// and the intended model "identifiers are in bijection with finite octet strings".
// From that model the engine uses
//   - definitions by comprehension: a fresh identifier with given length and octets
//     (bytesOf: the content of a program slice at a program point),
//   - bcat(a, b) with its two defining axioms (instantiated per use),
//   - extensionality, instantiated for every pair of identifiers that occur as
//     arguments of a cryptographic function symbol (skolemised: a witness index d),
//   - uninterpreted cryptographic functions over identifiers:
//         hmacv(alg, key, msg)          digest, blen = hash size of alg
//         cbcenc(key, iv, data), cbcdec(key, iv, data)   blen = blen(data),
//         cbcdec(k, iv, cbcenc(k, iv, x)) = x   (instantiated per pair of uses)
// Nothing else is assumed about them (in particular no injectivity: the ideal-MAC
// assumption of C02/C15 is an argument outside the solver).

import (
	"fmt"
	"math/big"
	"os"
	"strings"
	"sync"

	"golang.org/x/tools/go/ssa"
)

var (
	fnBlen   = DeclFunc("blen", []Sort{SInt}, SInt)
	fnBat    = DeclFunc("bat", []Sort{SInt, SInt}, SInt)
	fnBcat   = DeclFunc("bcat", []Sort{SInt, SInt}, SInt)
	fnHmacV  = DeclFunc("hmacv", []Sort{SInt, SInt, SInt}, SInt)
	fnCbcEnc = DeclFunc("cbcenc", []Sort{SInt, SInt, SInt}, SInt)
	fnCbcDec = DeclFunc("cbcdec", []Sort{SInt, SInt, SInt}, SInt)
	// prfplusv(alg, key, seed, n): what lib.PrfPlus returns for a hash object of that
	// algorithm and key (assumed to be a function of these: justified by the proved
	// per-iteration contract of PrfPlus, which resets the object before every block)
	fnPrfPlusV = DeclFunc("prfplusv", []Sort{SInt, SInt, SInt, SInt}, SInt)
)

func blenT(v *Term) *Term   { return App(fnBlen, bi(0), pow48, v) }
func batT(v, j *Term) *Term { return App(fnBat, bi(0), bi(255), v, j) }

// the empty string
var bEmptyT *Term

func (ex *Exec) bEmpty() *Term {
	if bEmptyT == nil {
		bEmptyT = Var("bempty", SInt, nil, nil)
	}
	ex.assumeAxiom(Eq(blenT(bEmptyT), Int(0)))
	return bEmptyT
}

// assumeAxiom adds a fact that holds in every state (no reach guard).
func (ex *Exec) assumeAxiom(t *Term) {
	if containsBound(t) {
		t = ForallNoShift(t)
	}
	if t.IsTrue() || ex.hypSeen[t.id] {
		return
	}
	ex.hypSeen[t.id] = true
	ex.hyps = append(ex.hyps, t)
}

type bytesKey struct {
	arr, off, n int
	logLen      int
	cur         int
}

// bytesOf: the value held by slice s now.
func (ex *Exec) bytesOf(s SliceV) *Term {
	if ex.bytesCache == nil {
		ex.bytesCache = map[bytesKey]*Term{}
	}
	k := ex.byteKind()
	key := bytesKey{s.Arr.id, s.Off.id, s.Len.id, len(k.log), 0}
	if v, ok := ex.bytesCache[key]; ok {
		return v
	}
	// a slice that is exactly the storage of a value (digest, cipher output) is that value
	if v := ex.wholeValue(s); v != nil {
		ex.bytesCache[key] = v
		return v
	}
	// the definition is stated for the memory as it is now, independently of the path
	// condition (no simplification under the current reach condition), so that the same
	// value is shared by all branches that look at this slice in this memory state
	v := Fresh("bv", SInt, nil, nil)
	saved := ex.cur
	ex.cur = nil
	ex.assumeAxiom(Implies(And(Le(Int(0), s.Len), Le(s.Len, IntB(pow48))), Eq(blenT(v), s.Len)))
	j := BoundVar("j", nil, nil)
	rd := ex.mem.Read(k, s.Arr, Add(s.Off, j), -1)
	ex.cur = saved
	body := Implies(And(Le(Int(0), j), Lt(j, s.Len)), Eq(batT(v, j), rd))
	ex.assumeAxiom(ForallPat(body, batT(v, j)))
	ex.bytesCache[key] = v
	ex.noteLen(v, s.Len)
	return v
}

// wholeValue: s is (syntactically) the whole storage object of a byte-string value.
func (ex *Exec) wholeValue(s SliceV) *Term {
	if c, ok := s.Off.ConstInt(); !ok || c != 0 {
		return nil
	}
	v, ok := ex.valueRefs[s.Arr.id]
	if !ok {
		return nil
	}
	if s.Len == ex.valueLens[s.Arr.id] {
		return v
	}
	return nil
}

// bytesRef: a read-only storage object holding value v (n = its length, for wholeValue).
func (ex *Exec) bytesRef(v, n *Term) *Term {
	ref := ex.unknownBytes()
	k := ex.byteKind()
	ex.mem.push(k, MemEntry{typ: eBytesOf, guard: True(), ref: ref, val: v})
	if ex.valueRefs == nil {
		ex.valueRefs = map[int]*Term{}
		ex.valueLens = map[int]*Term{}
	}
	ex.valueRefs[ref.id] = v
	ex.valueLens[ref.id] = n
	return ref
}

// bcat(a, b) with its defining axioms.
func (ex *Exec) bcat(a, b *Term) *Term {
	if a == bEmptyT && bEmptyT != nil {
		return b
	}
	app := App(fnBcat, nil, nil, a, b)
	if ex.bcatNames == nil {
		ex.bcatNames = map[int]*Term{}
	}
	if c, ok := ex.bcatNames[app.id]; ok {
		return c
	}
	// a named constant stands for the concatenation (triggers must not contain ite /
	// boolean structure); the equation keeps congruence over bcat available
	c := Fresh("bc", SInt, nil, nil)
	ex.bcatNames[app.id] = c
	ex.assumeAxiom(Eq(c, app))
	la, lb := blenT(a), blenT(b)
	ex.assumeAxiom(Eq(blenT(c), Add(la, lb)))
	ex.noteLen(c, Add(ex.lenOf(a), ex.lenOf(b)))
	j := BoundVar("j", nil, nil)
	ex.assumeAxiom(ForallPat(Implies(And(Le(Int(0), j), Lt(j, la)), Eq(batT(c, j), batT(a, j))), batT(c, j)))
	k := BoundVar("k", nil, nil)
	ex.assumeAxiom(ForallPat(Implies(And(Le(la, k), Lt(k, Add(la, lb))), Eq(batT(c, k), batT(b, Sub(k, la)))), batT(c, k)))
	return c
}

// extCandidate registers v as an argument of a cryptographic function symbol and
// instantiates extensionality against the earlier candidates of the same class.
func (ex *Exec) extCandidate(class string, v *Term) {
	if ex.extSeen == nil {
		ex.extSeen = map[string]map[int]bool{}
		ex.extList = map[string][]*Term{}
	}
	if ex.extSeen[class] == nil {
		ex.extSeen[class] = map[int]bool{}
	}
	if ex.extSeen[class][v.id] {
		return
	}
	ex.extSeen[class][v.id] = true
	if ex.extOrigin == nil {
		ex.extOrigin = map[int]bool{}
	}
	inCode := ex.inRepoCode()
	ex.extOrigin[v.id] = inCode
	type pair struct {
		p, clause, eq *Term
		q             string
		ok            bool
	}
	var ps []*pair
	for _, p := range ex.extList[class] {
		if Eq(v, p).IsTrue() {
			continue
		}
		d := Fresh("extd", SInt, nil, nil)
		clause := Or(Eq(v, p), Ne(blenT(v), blenT(p)),
			And(Le(Int(0), d), Lt(d, blenT(v)), Ne(batT(v, d), batT(p, d))))
		pr := &pair{p: p, clause: clause, eq: Eq(v, p)}
		// keys made by the code under verification are compared with the keys of the
		// reference computation in the lemma, not with one another
		skipCut := class == "cmp" || class == "key" && inCode && ex.extOrigin[p.id]
		if !noCuts && !skipCut {
			pr.q = ex.cutQuery(pr.eq, clause)
			if traceCuts {
				cutDump++
				os.WriteFile(fmt.Sprintf("/tmp/cut_%d.smt2", cutDump), []byte("; goal "+pr.eq.StringLimit(300)+"\n"+pr.q), 0o644)
			}
		}
		ps = append(ps, pr)
	}
	// cuts: pairs that are provably equal here and now are recorded as equalities
	// (later proofs then go by congruence instead of re-deriving them); the queries
	// of one candidate are independent and run concurrently
	if !noCuts && len(ps) > 0 {
		var wg sync.WaitGroup
		sem := make(chan bool, 8)
		for _, pr := range ps {
			if pr.q == "" {
				continue
			}
			wg.Add(1)
			go func(pr *pair) {
				defer wg.Done()
				sem <- true
				defer func() { <-sem }()
				r := runSolver(solvers[0], pr.q, cutTimeoutMs)
				pr.ok = r.status == "unsat"
				if traceCuts {
					fmt.Fprintf(os.Stderr, "CUT %s %dms qlen=%d class=%s %s\n", r.status, r.millis, len(pr.q), class, pr.eq.StringLimit(160))
				}
			}(pr)
		}
		wg.Wait()
	}
	// second chance with a longer budget for the pairs whose lengths are the same term
	// (copies of one another, typically)
	found := false
	for _, pr := range ps {
		found = found || pr.ok
	}
	if !noCuts && !found {
		var wg sync.WaitGroup
		sem := make(chan bool, 8)
		for _, pr := range ps {
			if pr.ok || pr.q == "" || ex.lenOf(v) != ex.lenOf(pr.p) {
				continue
			}
			wg.Add(1)
			go func(pr *pair) {
				defer wg.Done()
				sem <- true
				defer func() { <-sem }()
				r := runSolver(solvers[0], pr.q, cutTimeoutMs*8)
				pr.ok = r.status == "unsat"
				if traceCuts {
					fmt.Fprintf(os.Stderr, "CUT2 %s %dms qlen=%d class=%s %s\n", r.status, r.millis, len(pr.q), class, pr.eq.StringLimit(160))
				}
			}(pr)
		}
		wg.Wait()
	}
	for _, pr := range ps {
		ex.cutsTried++
		if pr.ok {
			ex.assumeGlobal(pr.eq)
			ex.cutsProved++
		} else {
			ex.assumeAxiom(pr.clause)
		}
	}
	ex.extList[class] = append(ex.extList[class], v)
}

// cutQuery: "hyps so far, extra and the current reach condition entail goal" as a
// satisfiability query of the negation.
func (ex *Exec) cutQuery(goal, extra *Term) string {
	ng := Not(goal)
	if ex.cur != nil && !ex.cur.IsTrue() {
		ng = And(ex.cur, ng)
	}
	asserts := relevantHyps(ex.hyps, And(ng, extra))
	asserts = append(asserts, extra, ng)
	return RenderQuery(asserts, nil, ex.quant, "", false)
}

var cutDump int
var traceCuts = os.Getenv("IKEVERIF_TRACECUTS") != ""
var noCuts = os.Getenv("IKEVERIF_NOCUTS") != ""
var cutTimeoutMs = envInt("IKEVERIF_CUTMS", 1500)

type cbcUse struct {
	enc          bool
	key, iv, dat *Term
	out          *Term
	src          SliceV // enc: the plaintext buffer and the length of the byte log when it was encrypted
	upto         int
}

// tryProve: hyps so far and the current reach condition entail goal (short solver call).
func (ex *Exec) tryProve(goal *Term, timeoutMs int) bool {
	if goal.IsTrue() {
		return true
	}
	if goal.IsFalse() || noCuts {
		return false
	}
	ng := Not(goal)
	if ex.cur != nil && !ex.cur.IsTrue() {
		ng = And(ex.cur, ng)
	}
	// every hypothesis (the goal need not mention the symbols its proof goes through)
	asserts := append(append([]*Term{}, ex.hyps...), ng)
	q := RenderQuery(asserts, nil, ex.quant, "", false)
	r := runSolver(solvers[0], q, timeoutMs)
	if traceCuts {
		fmt.Fprintf(os.Stderr, "PROVE %s %dms %s\n", r.status, r.millis, goal.StringLimit(160))
	}
	return r.status == "unsat"
}

func (ex *Exec) installBytesLayer() {
	ex.hmacNewHook = func(reach, ref, alg *Term, key SliceV) {
		kv := ex.bytesOf(key)
		ex.extCandidate("key", kv)
		ex.gwrite("hmac.key", reach, ref, kv)
		ex.gwrite("hmac.buf", reach, ref, ex.bEmpty())
	}
	ex.hashResetHook = func(reach, ref *Term) {
		ex.gwrite("hmac.buf", reach, ref, ex.bEmpty())
	}
	ex.hashWriteHook = func(reach, ref *Term, p SliceV) {
		old := ex.gread("hmac.buf", ref)
		ex.gwrite("hmac.buf", reach, ref, ex.bcat(old, ex.bytesOf(p)))
	}
	ex.hashSumHook = func(reach, ref, size *Term) *Term {
		msg := ex.gread("hmac.buf", ref)
		key := ex.gread("hmac.key", ref)
		alg := ex.gread("hmac.alg", ref)
		ex.extCandidate("msg", msg)
		ex.extCandidate("key", key)
		d := App(fnHmacV, nil, nil, alg, key, msg)
		ex.assumeAxiom(Eq(blenT(d), size))
		ex.noteLen(d, size)
		return ex.bytesRef(d, size)
	}
	// bytes.Equal / hmac.Equal: equality of the two values (extensionality in the
	// intended model makes this the same as equal length and equal octets)
	ex.bytesEqHook = func(a, b SliceV) *Term {
		va, vb := ex.bytesOf(a), ex.bytesOf(b)
		ex.extCandidate("cmp", va)
		ex.extCandidate("cmp", vb)
		return Eq(va, vb)
	}
	ex.aesNewHook = func(reach, ref *Term, key SliceV) {
		kv := ex.bytesOf(key)
		ex.extCandidate("key", kv)
		ex.gwrite("aes.key", reach, ref, kv)
	}
	ex.cbcNewHook = func(reach, ref, block *Term, iv SliceV, dir int64) {
		ex.gwrite("cbc.key", reach, ref, ex.gread("aes.key", block))
		iv0 := ex.bytesOf(iv)
		ex.extCandidate("iv", iv0)
		ex.gwrite("cbc.iv", reach, ref, iv0)
	}
	ex.cbcCryptHook = func(reach, ref *Term, src SliceV) *Term {
		dir := ex.gread("cbc.dir", ref)
		key := ex.gread("cbc.key", ref)
		iv := ex.gread("cbc.iv", ref)
		dat := ex.bytesOf(src)
		ex.extCandidate("data", dat)
		dc, ok := dir.ConstInt()
		if !ok {
			ex.unsupported("CryptBlocks on a block mode of unknown direction")
			return ex.unknownBytes()
		}
		var out *Term
		if dc == 1 {
			out = App(fnCbcEnc, nil, nil, key, iv, dat)
			ex.extCandidate("data", out)
		} else {
			out = App(fnCbcDec, nil, nil, key, iv, dat)
			// inverse axiom against every encryption seen so far
			var match *cbcUse
			for i := len(ex.cbcUses) - 1; i >= 0; i-- {
				u := &ex.cbcUses[i]
				if !u.enc {
					continue
				}
				same := And(Eq(key, u.key), Eq(iv, u.iv), Eq(dat, u.out))
				ex.assumeAxiom(Implies(same, Eq(out, u.dat)))
				if match == nil && ex.tryProve(same, cutTimeoutMs*4) {
					match = u
				}
			}
			if match != nil {
				// this is provably the decryption of that encryption: the output is the
				// plaintext as it was then - as concrete memory, so that code parsing it
				// (the inner payload chain) is executed on the bytes that were encoded
				ex.assumeGlobal(Eq(out, match.dat))
				ex.assumeAxiom(Eq(blenT(out), blenT(dat)))
				ex.noteLen(out, ex.lenOf(dat))
				ex.cbcUses = append(ex.cbcUses, cbcUse{enc: false, key: key, iv: iv, dat: dat, out: out})
				n := ex.gread("cbc.used", ref)
				ex.oblige("pre", "block mode used once (chaining across CryptBlocks calls is not modelled)", reach, Eq(n, Int(0)))
				ex.gwrite("cbc.used", reach, ref, Int(1))
				r := ex.unknownBytes()
				ex.mem.push(ex.byteKind(), MemEntry{typ: eCopy, guard: True(), ref: r, idx: Int(0), n: match.src.Len, src: match.src.Arr, srcOff: match.src.Off, srcUpto: match.upto})
				return r
			}
		}
		ex.assumeAxiom(Eq(blenT(out), blenT(dat)))
		ex.noteLen(out, ex.lenOf(dat))
		ex.cbcUses = append(ex.cbcUses, cbcUse{enc: dc == 1, key: key, iv: iv, dat: dat, out: out, src: src, upto: len(ex.byteKind().log)})
		// (a block mode is used for one CryptBlocks call in this library; chaining state
		// across calls is not modelled)
		n := ex.gread("cbc.used", ref)
		ex.oblige("pre", "block mode used once (chaining across CryptBlocks calls is not modelled)", reach, Eq(n, Int(0)))
		ex.gwrite("cbc.used", reach, ref, Int(1))
		return ex.bytesRef(out, src.Len)
	}
}

// prfPlusSpec implements the intrinsic verifPrfPlusSpec(prf, s, n).
func (ex *Exec) prfPlusSpec(recv IfaceV, seed SliceV, n *Term) SliceV {
	ref := ex.boxData(recv)
	key := ex.gread("hmac.key", ref)
	alg := ex.gread("hmac.alg", ref)
	sv := ex.bytesOf(seed)
	ex.extCandidate("key", key)
	ex.extCandidate("seed", sv)
	v := App(fnPrfPlusV, nil, nil, alg, key, sv, n)
	ex.assumeAxiom(Implies(Ge(n, Int(0)), Eq(blenT(v), n)))
	ex.noteLen(v, n)
	return SliceV{Arr: ex.bytesRef(v, n), Off: Int(0), Len: n, Cap: n, Elem: seed.Elem}
}

var _ = big.NewInt

func (ex *Exec) noteLen(v, n *Term) {
	if ex.lens == nil {
		ex.lens = map[int]*Term{}
	}
	ex.lens[v.id] = n
}

// lenOf: the length term recorded for value v (blen(v) itself if none).
func (ex *Exec) lenOf(v *Term) *Term {
	if n, ok := ex.lens[v.id]; ok {
		return n
	}
	if v == bEmptyT {
		return Int(0)
	}
	return blenT(v)
}

// inRepoCode: the instruction being executed belongs to a function of the repository
// (as opposed to a lemma / specification function of the overlay).
func (ex *Exec) inRepoCode() bool {
	for i := len(ex.fnStack) - 1; i >= 0; i-- {
		n := ex.fnStack[i]
		if j := strings.LastIndex(n, "."); j >= 0 {
			n = n[j+1:]
		}
		if strings.HasPrefix(n, "lemma_") || strings.HasPrefix(n, "verif") || strings.HasPrefix(n, "contract_") || strings.HasPrefix(n, "step_") || strings.HasPrefix(n, "inv_") {
			return false
		}
		return true
	}
	return false
}

// nativeSummaries: contracts of repository functions applied at call sites in the
// engine's own terms (the Go text of each contract is in /verif/contracts, marked
// ASSUMED; the definitional form below avoids quantified post-conditions).
var nativeSummaries = map[string]externFn{
	// lib.PrfPlus(prf, s, n): requires prf != nil, n >= 0; the result is a fresh slice of
	// n octets holding prfplusv(alg, key, s, n); the hash object's buffer is left in an
	// unspecified state
	"security/lib.PrfPlus": func(ex *Exec, f *Frame, call *ssa.Call, args []Value, reach *Term) (Value, *Term) {
		ex.usedModel("ASSUMED contract of security/lib.PrfPlus: result = fresh n octets, a function of (hash algorithm, key of the hash object, seed, n) only (justified by its proved per-iteration contract, contracts/security/lib/c07.go)")
		recv := args[0].(IfaceV)
		seed := args[1].(SliceV)
		n := args[2].(*Term)
		what := ex.exprText(call.Pos(), "call")
		ex.oblige("pre", "security/lib.PrfPlus:prf != nil:"+what, reach, Ne(recv.Tag, Int(0)))
		ex.oblige("pre", "security/lib.PrfPlus:streamLen >= 0:"+what, reach, Ge(n, Int(0)))
		spec := ex.prfPlusSpec(recv, seed, n)
		// a fresh array holding a copy
		ref := ex.newObj()
		k := ex.byteKind()
		ex.mem.push(k, MemEntry{typ: eZero, guard: reach, ref: ref})
		ex.mem.Copy(k, reach, ref, Int(0), n, spec.Arr, Int(0))
		ex.gwrite("hmac.buf", reach, ex.boxData(recv), Fresh("hmac.buf.after.prfplus", SInt, nil, nil))
		return SliceV{Arr: ref, Off: Int(0), Len: n, Cap: n, Elem: seed.Elem}, reach
	},
}
