package main

// The abstract byte-string layer (DESIGN.md 2.4, as built).
//
// A byte-string *value* is an Int identifier v with two uninterpreted observers
//     blen(v) >= 0            its length
//     bat(v, j) in 0..255     its j-th octet
// and the intended model "identifiers are in bijection with finite octet strings".
// From that model the engine uses
//   - definitions by comprehension: a fresh identifier with given length and octets
//     (bytesOf: the content of a program slice at a program point),
//   - bcat(a, b) with its two defining axioms (instantiated per use),
//   - extensionality, instantiated for every pair of identifiers that occur as
//     arguments of a cryptographic function symbol (skolemised: a witness index d),
//   - uninterpreted cryptographic functions over identifiers:
//         hmacv(alg, key, msg)          digest, blen = hash size of alg
//         cbcenc(key, iv, data), cbcdec(key, iv, data)   blen = blen(data),
//         cbcdec(k, iv, cbcenc(k, iv, x)) = x   (instantiated per pair of uses)
// Nothing else is assumed about them (in particular no injectivity: the ideal-MAC
// assumption of C02/C15 is an argument outside the solver).

import (
	"math/big"
)

var (
	fnBlen   = DeclFunc("blen", []Sort{SInt}, SInt)
	fnBat    = DeclFunc("bat", []Sort{SInt, SInt}, SInt)
	fnBcat   = DeclFunc("bcat", []Sort{SInt, SInt}, SInt)
	fnHmacV  = DeclFunc("hmacv", []Sort{SInt, SInt, SInt}, SInt)
	fnCbcEnc = DeclFunc("cbcenc", []Sort{SInt, SInt, SInt}, SInt)
	fnCbcDec = DeclFunc("cbcdec", []Sort{SInt, SInt, SInt}, SInt)
)

func blenT(v *Term) *Term   { return App(fnBlen, bi(0), pow48, v) }
func batT(v, j *Term) *Term { return App(fnBat, bi(0), bi(255), v, j) }

// the empty string
var bEmptyT *Term

func (ex *Exec) bEmpty() *Term {
	if bEmptyT == nil {
		bEmptyT = Var("bempty", SInt, nil, nil)
	}
	ex.assumeAxiom(Eq(blenT(bEmptyT), Int(0)))
	return bEmptyT
}

// assumeAxiom adds a fact that holds in every state (no reach guard).
func (ex *Exec) assumeAxiom(t *Term) {
	if containsBound(t) {
		t = ForallNoShift(t)
	}
	if t.IsTrue() || ex.hypSeen[t.id] {
		return
	}
	ex.hypSeen[t.id] = true
	ex.hyps = append(ex.hyps, t)
}

type bytesKey struct {
	arr, off, n int
	logLen     int
	cur        int
}

// bytesOf: the value held by slice s now.
func (ex *Exec) bytesOf(s SliceV) *Term {
	if ex.bytesCache == nil {
		ex.bytesCache = map[bytesKey]*Term{}
	}
	k := ex.byteKind()
	cid := 0
	if ex.cur != nil {
		cid = ex.cur.id
	}
	key := bytesKey{s.Arr.id, s.Off.id, s.Len.id, len(k.log), cid}
	if v, ok := ex.bytesCache[key]; ok {
		return v
	}
	// a slice that is exactly the storage of a value (digest, cipher output) is that value
	if v := ex.wholeValue(s); v != nil {
		ex.bytesCache[key] = v
		return v
	}
	v := Fresh("bv", SInt, nil, nil)
	ex.assumeGlobal(Eq(blenT(v), s.Len))
	j := BoundVar("j", nil, nil)
	rd := ex.mem.Read(k, s.Arr, Add(s.Off, j), -1)
	body := Implies(And(Le(Int(0), j), Lt(j, s.Len)), Eq(batT(v, j), rd))
	if ex.cur != nil && !ex.cur.IsTrue() {
		body = Implies(ex.cur, body)
	}
	ex.assumeAxiom(ForallPat(body, batT(v, j)))
	ex.bytesCache[key] = v
	return v
}

// wholeValue: s is (syntactically) the whole storage object of a byte-string value.
func (ex *Exec) wholeValue(s SliceV) *Term {
	if c, ok := s.Off.ConstInt(); !ok || c != 0 {
		return nil
	}
	v, ok := ex.valueRefs[s.Arr.id]
	if !ok {
		return nil
	}
	if s.Len == ex.valueLens[s.Arr.id] {
		return v
	}
	return nil
}

// bytesRef: a read-only storage object holding value v (n = its length, for wholeValue).
func (ex *Exec) bytesRef(v, n *Term) *Term {
	ref := ex.unknownBytes()
	k := ex.byteKind()
	ex.mem.push(k, MemEntry{typ: eBytesOf, guard: True(), ref: ref, val: v})
	if ex.valueRefs == nil {
		ex.valueRefs = map[int]*Term{}
		ex.valueLens = map[int]*Term{}
	}
	ex.valueRefs[ref.id] = v
	ex.valueLens[ref.id] = n
	return ref
}

// bcat(a, b) with its defining axioms.
func (ex *Exec) bcat(a, b *Term) *Term {
	if a == bEmptyT && bEmptyT != nil {
		return b
	}
	c := App(fnBcat, nil, nil, a, b)
	if ex.hypSeen[-c.id-1] {
		return c
	}
	ex.hypSeen[-c.id-1] = true
	la, lb := blenT(a), blenT(b)
	ex.assumeAxiom(Eq(blenT(c), Add(la, lb)))
	j := BoundVar("j", nil, nil)
	ex.assumeAxiom(ForallPat(Implies(And(Le(Int(0), j), Lt(j, la)), Eq(batT(c, j), batT(a, j))), batT(c, j)))
	k := BoundVar("k", nil, nil)
	ex.assumeAxiom(ForallPat(Implies(And(Le(la, k), Lt(k, Add(la, lb))), Eq(batT(c, k), batT(b, Sub(k, la)))), batT(c, k)))
	return c
}

// extCandidate registers v as an argument of a cryptographic function symbol and
// instantiates extensionality against the earlier candidates of the same class.
func (ex *Exec) extCandidate(class string, v *Term) {
	if ex.extSeen == nil {
		ex.extSeen = map[string]map[int]bool{}
		ex.extList = map[string][]*Term{}
	}
	if ex.extSeen[class] == nil {
		ex.extSeen[class] = map[int]bool{}
	}
	if ex.extSeen[class][v.id] {
		return
	}
	ex.extSeen[class][v.id] = true
	for _, p := range ex.extList[class] {
		d := Fresh("extd", SInt, nil, nil)
		ex.assumeAxiom(Or(Eq(v, p), Ne(blenT(v), blenT(p)),
			And(Le(Int(0), d), Lt(d, blenT(v)), Ne(batT(v, d), batT(p, d)))))
	}
	ex.extList[class] = append(ex.extList[class], v)
}

type cbcUse struct {
	enc          bool
	key, iv, dat *Term
	out          *Term
}

func (ex *Exec) installBytesLayer() {
	ex.hmacNewHook = func(reach, ref, alg *Term, key SliceV) {
		kv := ex.bytesOf(key)
		ex.extCandidate("key", kv)
		ex.gwrite("hmac.key", reach, ref, kv)
		ex.gwrite("hmac.buf", reach, ref, ex.bEmpty())
	}
	ex.hashResetHook = func(reach, ref *Term) {
		ex.gwrite("hmac.buf", reach, ref, ex.bEmpty())
	}
	ex.hashWriteHook = func(reach, ref *Term, p SliceV) {
		old := ex.gread("hmac.buf", ref)
		ex.gwrite("hmac.buf", reach, ref, ex.bcat(old, ex.bytesOf(p)))
	}
	ex.hashSumHook = func(reach, ref, size *Term) *Term {
		msg := ex.gread("hmac.buf", ref)
		key := ex.gread("hmac.key", ref)
		alg := ex.gread("hmac.alg", ref)
		ex.extCandidate("msg", msg)
		ex.extCandidate("key", key)
		d := App(fnHmacV, nil, nil, alg, key, msg)
		ex.assumeAxiom(Eq(blenT(d), size))
		return ex.bytesRef(d, size)
	}
	ex.aesNewHook = func(reach, ref *Term, key SliceV) {
		kv := ex.bytesOf(key)
		ex.extCandidate("key", kv)
		ex.gwrite("aes.key", reach, ref, kv)
	}
	ex.cbcNewHook = func(reach, ref, block *Term, iv SliceV, dir int64) {
		ex.gwrite("cbc.key", reach, ref, ex.gread("aes.key", block))
		iv0 := ex.bytesOf(iv)
		ex.extCandidate("iv", iv0)
		ex.gwrite("cbc.iv", reach, ref, iv0)
	}
	ex.cbcCryptHook = func(reach, ref *Term, src SliceV) *Term {
		dir := ex.gread("cbc.dir", ref)
		key := ex.gread("cbc.key", ref)
		iv := ex.gread("cbc.iv", ref)
		dat := ex.bytesOf(src)
		ex.extCandidate("data", dat)
		dc, ok := dir.ConstInt()
		if !ok {
			ex.unsupported("CryptBlocks on a block mode of unknown direction")
			return ex.unknownBytes()
		}
		var out *Term
		if dc == 1 {
			out = App(fnCbcEnc, nil, nil, key, iv, dat)
			ex.extCandidate("data", out)
		} else {
			out = App(fnCbcDec, nil, nil, key, iv, dat)
			// inverse axiom against every encryption seen so far
			for _, u := range ex.cbcUses {
				if u.enc {
					ex.assumeAxiom(Implies(And(Eq(key, u.key), Eq(iv, u.iv), Eq(dat, u.out)), Eq(out, u.dat)))
				}
			}
		}
		ex.assumeAxiom(Eq(blenT(out), blenT(dat)))
		ex.cbcUses = append(ex.cbcUses, cbcUse{enc: dc == 1, key: key, iv: iv, dat: dat, out: out})
		// (a block mode is used for one CryptBlocks call in this library; chaining state
		// across calls is not modelled)
		n := ex.gread("cbc.used", ref)
		ex.oblige("pre", "block mode used once (chaining across CryptBlocks calls is not modelled)", reach, Eq(n, Int(0)))
		ex.gwrite("cbc.used", reach, ref, Int(1))
		return ex.bytesRef(out, src.Len)
	}
}

var _ = big.NewInt
