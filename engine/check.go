package main

// Property checks: run every lemma of a property (one OS process per lemma, in
// parallel), aggregate the obligations, apply the known-findings file, write the
// evidence file and replay files, print VIOLATION / KNOWN-FINDING lines.

import (
	"encoding/json"
	"fmt"
	"go/ast"
	"os"
	"os/exec"
	"path/filepath"
	"regexp"
	"sort"
	"strings"
	"sync"
	"time"

	"golang.org/x/tools/go/ssa"
)

type OblJSON struct {
	Name    string            `json:"name"`
	Class   string            `json:"class"`
	Status  string            `json:"status"`
	Solver  string            `json:"solver"`
	Millis  int64             `json:"ms"`
	Bounded string            `json:"bounded,omitempty"`
	Model   map[string]string `json:"model,omitempty"`
	Raw     string            `json:"solver_output,omitempty"`
	Goal    string            `json:"goal,omitempty"`
	Replay  *ReplayFile       `json:"replay,omitempty"`
}

type LemmaJSON struct {
	Lemma       string    `json:"lemma"`
	Package     string    `json:"package"`
	Obligations []OblJSON `json:"obligations"`
	Covers      []OblJSON `json:"covers,omitempty"`
	Unsupported []string  `json:"unsupported,omitempty"`
	Bounded     []string  `json:"bounded,omitempty"`
	Kept        []string  `json:"invariants_inferred,omitempty"`
	Rounds      int       `json:"rounds"`
	WallMs      int64     `json:"wall_ms"`
	SolverMs    int64     `json:"solver_ms"`
	Models      []string  `json:"models_used"`
	Functions   []string  `json:"functions"`
	Error       string    `json:"error,omitempty"`
}

var tagRe = regexp.MustCompile(`#(?:assert|post|pre):((?:C\d\d\+)*C\d\d)/|(?:step|inv|peel|exit)_((?:C\d\d_)+)`)
var labelRe = regexp.MustCompile(`^"((?:C\d\d\+)*C\d\d)/`)

// oblProperties: the properties an obligation is labelled with (none: nil).  A step /
// invariant function may carry several: step_C07_C08_C17_name.
func oblProperties(name string) []string {
	m := tagRe.FindStringSubmatch(name)
	if m == nil {
		return nil
	}
	if m[1] != "" {
		return strings.Split(m[1], "+") // a label may carry several: "C01+C06/..."
	}
	return strings.Split(strings.TrimSuffix(m[2], "_"), "_")
}

// oblBelongs: does the obligation count for property prop when it occurs in a lemma
// that is (primary) / is not one of prop's own lemma functions?
func oblBelongs(name, prop string, primary bool) bool {
	tags := oblProperties(name)
	if len(tags) == 0 {
		return primary
	}
	for _, t := range tags {
		if t == prop {
			return true
		}
	}
	return false
}

// lemmaMentions: the lemma's source contains a label "<prop>/...".
func (P *Program) lemmaMentions(fn *ssa.Function, prop string) bool {
	return P.mentions(fn, prop, 0, map[*ssa.Function]bool{})
}

func (P *Program) mentions(fn *ssa.Function, prop string, depth int, seen map[*ssa.Function]bool) bool {
	if seen[fn] || depth > 3 {
		return false
	}
	seen[fn] = true
	if P.mentionsDirect(fn, prop) {
		return true
	}
	// helper functions of the overlay files (verif*) called by the lemma
	for _, b := range fn.Blocks {
		for _, ins := range b.Instrs {
			if c, ok := ins.(*ssa.Call); ok {
				if callee, ok := c.Call.Value.(*ssa.Function); ok && strings.HasPrefix(callee.Name(), "verif") && callee.Blocks != nil {
					if P.mentions(callee, prop, depth+1, seen) {
						return true
					}
				}
			}
		}
	}
	return false
}

func (P *Program) mentionsDirect(fn *ssa.Function, prop string) bool {
	syn, ok := fn.Syntax().(*ast.FuncDecl)
	if !ok || syn == nil {
		return false
	}
	found := false
	ast.Inspect(syn, func(n ast.Node) bool {
		if bl, ok := n.(*ast.BasicLit); ok {
			if m := labelRe.FindStringSubmatch(bl.Value); m != nil {
				for _, t := range strings.Split(m[1], "+") {
					found = found || t == prop
				}
			}
		}
		return !found
	})
	return found
}

func lemmaFunctions(P *Program, prop string) []*ssa.Function {
	var out []*ssa.Function
	var paths []string
	for p := range P.spkgs {
		if P.isRepoPkg(p) {
			paths = append(paths, p)
		}
	}
	sort.Strings(paths)
	for _, p := range paths {
		var names []string
		for n, m := range P.spkgs[p].Members {
			if fn, ok := m.(*ssa.Function); ok && strings.HasPrefix(n, "lemma_") {
				if strings.HasPrefix(n, "lemma_"+prop+"_") || P.lemmaMentions(fn, prop) {
					names = append(names, n)
				}
			}
		}
		sort.Strings(names)
		for _, n := range names {
			out = append(out, P.spkgs[p].Func(n))
		}
	}
	return out
}

// runLemma verifies one lemma function and produces its JSON record, including
// concretised and replayed counterexamples for refuted obligations.
func runLemma(P *Program, fn *ssa.Function, opts VerifyOpts, doReplay bool) *LemmaJSON {
	cfg := newRunCfg()
	P.applyLemmaConfig(fn, cfg)
	if cfg.timeoutMs > 0 && cfg.timeoutMs < opts.TimeoutMs {
		opts.TimeoutMs = cfg.timeoutMs
	}
	r := P.VerifyFunction(fn, cfg, opts)
	lj := &LemmaJSON{Lemma: fn.Name(), Package: fn.Pkg.Pkg.Path(), Unsupported: r.Unsupported, Kept: r.Kept, Rounds: r.Rounds, WallMs: r.WallMs}
	lj.Bounded = r.ex.bounded
	if cfg.boundedNote != "" {
		lj.Bounded = append([]string{"bounded stand-in: " + cfg.boundedNote}, lj.Bounded...)
	}
	seenRoot := map[string]bool{}
	for _, o := range r.Obls {
		if cfg.boundedNote != "" && o.Bounded == "" {
			o.Bounded = cfg.boundedNote
		}
		oj := OblJSON{Name: o.Name, Class: o.Class, Status: o.Status, Solver: o.Solver, Millis: o.Millis, Bounded: o.Bounded}
		lj.SolverMs += o.Millis
		if o.Status != "discharged" {
			oj.Model = o.Model
			raw := o.Raw
			if len(raw) > 1200 {
				raw = raw[:1200]
			}
			oj.Raw = raw
			if o.Goal != nil {
				g := o.Goal.String()
				if len(g) > 600 {
					g = g[:600] + "…"
				}
				oj.Goal = g
			}
			bn := baseName(o.Name)
			if doReplay && !seenRoot[bn] {
				seenRoot[bn] = true
				rf := &ReplayFile{Obligation: bn, Lemma: fn.Name(), Package: fn.Pkg.Pkg.Path(), SolverOutput: raw}
				if o.Status == "refuted" || o.Status == "unknown" {
					args, k, out := P.concretize(fn, o.Name, opts)
					if args != nil || len(fn.Params) == 0 && out != "" {
						rf.Args = args
						rf.Unrolled = k
						P.RunReplay(rf)
					} else {
						rf.Status = "no-failing-input-found"
						rf.Note = "the solver refuted (or could not decide) the obligation at the cut loop state, but no parameter assignment reaching it within 3 loop iterations was found"
					}
				}
				oj.Replay = rf
			}
		}
		lj.Obligations = append(lj.Obligations, oj)
	}
	for _, c := range r.Covers {
		lj.Covers = append(lj.Covers, OblJSON{Name: c.Name, Class: "cover", Status: c.Status})
	}
	for m := range P.modelsUsed {
		lj.Models = append(lj.Models, m)
	}
	sort.Strings(lj.Models)
	fs := map[string]bool{}
	for _, o := range r.ex.obls {
		fs[o.Fn] = true
	}
	for f := range fs {
		lj.Functions = append(lj.Functions, f)
	}
	sort.Strings(lj.Functions)
	return lj
}

// applyLemmaConfig reads `//verif:` directives from the lemma's doc comment.
func (P *Program) applyLemmaConfig(fn *ssa.Function, cfg *RunCfg) {
	for _, d := range P.directives[fn.Name()] {
		f := strings.Fields(d)
		if len(f) == 0 {
			continue
		}
		switch f[0] {
		case "unroll": // unroll <loopKey> <k> [assert]
			if len(f) >= 3 {
				var k int
				fmt.Sscanf(f[2], "%d", &k)
				cfg.unroll[f[1]] = k
				if len(f) >= 4 && f[3] == "assert" {
					cfg.unwindAssert[f[1]] = true
				}
			}
		case "maxlen": // maxlen name=K ...   (len(param) <= K is a precondition of the lemma)
			for _, kv := range f[1:] {
				if i := strings.Index(kv, "="); i > 0 {
					var n int64
					fmt.Sscanf(kv[i+1:], "%d", &n)
					cfg.maxLen[kv[:i]] = n
				}
			}
		case "bounded":
			cfg.boundedNote = strings.Join(f[1:], " ")
		case "novariant":
			for _, n := range f[1:] {
				cfg.noVariant[n] = true
			}
		case "timeout": // timeout <ms>: per-obligation solver budget for this lemma
			if len(f) >= 2 {
				fmt.Sscanf(f[1], "%d", &cfg.timeoutMs)
			}
		case "bytes":
			cfg.bytesLayer = true
		case "nostrict":
			cfg.strict = false
		case "summary":
			for _, n := range f[1:] {
				cfg.useSummary[n] = true
			}
		}
	}
}

type KnownFinding struct {
	Property   string `json:"property"`
	Obligation string `json:"obligation"`
	What       string `json:"what"`
	Status     string `json:"status"` // known | fixed
	Commit     string `json:"commit,omitempty"`
	Witness    string `json:"witness,omitempty"`
}

type Evidence struct {
	PropertyID  string                 `json:"property_id"`
	Tier        string                 `json:"tier"`
	Seed        int                    `json:"seed"`
	Level       string                 `json:"level"`
	Coverage    map[string]interface{} `json:"coverage"`
	Assumptions []string               `json:"assumptions"`
	WallS       float64                `json:"wall_s"`
	Violations  int                    `json:"violations"`
}

func sanitizeFile(s string) string {
	var sb strings.Builder
	for _, r := range s {
		switch {
		case r >= 'a' && r <= 'z', r >= 'A' && r <= 'Z', r >= '0' && r <= '9', r == '.', r == '-', r == '_':
			sb.WriteRune(r)
		default:
			sb.WriteByte('_')
		}
	}
	out := sb.String()
	if len(out) > 150 {
		out = out[:150]
	}
	return out
}

// checkProperty is the entry point of `ikeverif check <ID> <tier>`.
func checkProperty(P *Program, verifDir, prop, tier string, opts VerifyOpts) int {
	t0 := time.Now()
	seed := envInt("VERIF_SEED", 0)
	lemmas := lemmaFunctions(P, prop)
	meta := propMeta[prop]
	if len(lemmas) == 0 && meta.extra == nil {
		fmt.Printf("check %s: no lemma functions found (broken check)\n", prop)
		return 2
	}
	self, _ := os.Executable()
	outDir := filepath.Join(scratch(), "lemmas")
	os.MkdirAll(outDir, 0o755)
	results := make([]*LemmaJSON, len(lemmas))
	var wg sync.WaitGroup
	sem := make(chan bool, envInt("IKEVERIF_PROCS", 6))
	timeout := "10000"
	if tier == "thorough" {
		timeout = "60000"
	}
	for i, fn := range lemmas {
		wg.Add(1)
		go func(i int, fn *ssa.Function) {
			defer wg.Done()
			sem <- true
			defer func() { <-sem }()
			out := filepath.Join(outDir, fn.Name()+".json")
			cmd := exec.Command(self, "-repo", P.repoDir, "-contracts", P.contractsDir, "-timeout", timeout, "lemma", fn.Pkg.Pkg.Path()+"."+fn.Name(), out)
			budget := "IKEVERIF_MAXSEC=480"
			if tier == "thorough" {
				budget = "IKEVERIF_MAXSEC=1500"
			}
			cmd.Env = append(os.Environ(), "IKEVERIF_WORKERS=4", budget)
			b, err := cmd.CombinedOutput()
			lj := &LemmaJSON{Lemma: fn.Name(), Package: fn.Pkg.Pkg.Path()}
			if data, rerr := os.ReadFile(out); rerr == nil {
				json.Unmarshal(data, lj)
			} else {
				lj.Error = fmt.Sprintf("lemma process failed: %v: %s", err, tail(string(b), 800))
			}
			results[i] = lj
		}(i, fn)
	}
	wg.Wait()

	if os.Getenv("IKEVERIF_TIMING") != "" {
		for _, lj := range results {
			nf := 0
			for _, o := range lj.Obligations {
				if o.Status != "discharged" {
					nf++
				}
			}
			fmt.Printf("TIMING %-40s wall=%6dms solver=%7dms obligations=%d failing=%d %s\n", lj.Lemma, lj.WallMs, lj.SolverMs, len(lj.Obligations), nf, lj.Error)
		}
	}
	// phase 2: concretise and replay each failing obligation once, in the cheapest
	// lemma in which it fails
	type pick struct {
		lemma *LemmaJSON
		name  string
	}
	picks := map[string]pick{}
	known := loadKnown(filepath.Join(verifDir, "known_findings.json"))
	for _, lj := range results {
		primary := strings.HasPrefix(lj.Lemma, "lemma_"+prop+"_")
		for _, o := range lj.Obligations {
			if o.Status == "discharged" || o.Status == "skipped" || o.Bounded != "" {
				continue
			}
			if !oblBelongs(o.Name, prop, primary) {
				continue
			}
			bn := baseName(o.Name)
			if kf := findKnown(known, prop, bn); kf != nil && kf.Status == "known" {
				continue // a recorded finding: its witness is in known_findings.json
			}
			if p, ok := picks[bn]; !ok || lj.WallMs < p.lemma.WallMs {
				picks[bn] = pick{lj, o.Name}
			}
		}
	}
	replays := map[string]*ReplayFile{}
	var rmu sync.Mutex
	if os.Getenv("IKEVERIF_NOREPLAY") != "" {
		picks = nil // (self-test runs only need the verdict)
	}
	for bn, p := range picks {
		wg.Add(1)
		go func(bn string, p pick) {
			defer wg.Done()
			sem <- true
			defer func() { <-sem }()
			out := filepath.Join(outDir, "replay_"+sanitizeFile(bn)+".json")
			cmd := exec.Command(self, "-repo", P.repoDir, "-contracts", P.contractsDir, "-timeout", timeout, "concretize", p.lemma.Package+"."+p.lemma.Lemma, p.name, out)
			cmd.Env = append(os.Environ(), "IKEVERIF_WORKERS=2", "IKEVERIF_MAXSEC=150", "IKEVERIF_MAXHEAP_MB=6000")
			cmd.CombinedOutput()
			rf := &ReplayFile{}
			if data, err := os.ReadFile(out); err == nil && json.Unmarshal(data, rf) == nil {
				rmu.Lock()
				replays[bn] = rf
				rmu.Unlock()
			}
		}(bn, p)
	}
	wg.Wait()

	// aggregate by obligation base name
	type agg struct {
		name    string
		status  string // discharged | failing
		inst    int
		solver  map[string]int
		ms      int64
		replay  *ReplayFile
		raw     string
		lemma   string
		bounded string
		class   string
		from    string // lemma function the obligation was generated in
	}
	aggs := map[string]*agg{}
	var order []string
	var unsupported, engineErrors, boundedNotes []string
	var overBudget []*LemmaJSON
	mismatch := map[string]bool{}
	var mismatchNotes []string
	var solverMs int64
	models := map[string]bool{}
	functions := map[string]bool{}
	inferred := map[string]bool{}
	solverCount := map[string]int{}
	for _, lj := range results {
		if lj.Error != "" {
			if strings.Contains(lj.Error, "budget exceeded") {
				// the lemma is decided well within the budget on the unchanged tree; code on
				// which it no longer is has left what the proof covers: undecided = violation
				overBudget = append(overBudget, lj)
			} else {
				engineErrors = append(engineErrors, lj.Lemma+": "+lj.Error)
			}
		}
		for _, u := range lj.Unsupported {
			if strings.HasPrefix(u, "invariant ") && strings.Contains(u, "cannot bind") {
				// a loop invariant written for this loop no longer matches the loop's variables:
				// the code was restructured.  An invariant is only a means to prove the lemma's
				// assertions, so this is a lost proof, not a defect: assertions that now fail are
				// decided by the search step below instead.  (Step and exit predicates are
				// obligations in their own right: when they cannot be bound the code has left
				// what is verified, and that stays an engine#subset violation.)
				mismatch[lj.Lemma] = true
				mismatchNotes = append(mismatchNotes, lj.Lemma+": "+u)
				continue
			}
			unsupported = append(unsupported, lj.Lemma+": "+u)
		}
		for _, b := range lj.Bounded {
			boundedNotes = append(boundedNotes, lj.Lemma+": "+b)
		}
		solverMs += lj.SolverMs
		for _, m := range lj.Models {
			models[m] = true
		}
		for _, f := range lj.Functions {
			functions[f] = true
		}
		for _, k := range lj.Kept {
			inferred[k] = true
		}
		primary := strings.HasPrefix(lj.Lemma, "lemma_"+prop+"_")
		for _, o := range lj.Obligations {
			if !oblBelongs(o.Name, prop, primary) || o.Status == "skipped" {
				continue // belongs to another property / not decided after many failures
			}
			bn := baseName(o.Name)
			a := aggs[bn]
			if a == nil {
				a = &agg{name: bn, status: "discharged", solver: map[string]int{}, class: o.Class, from: lj.Lemma}
				aggs[bn] = a
				order = append(order, bn)
			}
			a.inst++
			a.ms += o.Millis
			a.solver[o.Solver]++
			solverCount[o.Solver]++
			if o.Bounded != "" {
				a.bounded = o.Bounded
			}
			if o.Status != "discharged" {
				a.status = "failing"
				if a.raw == "" {
					a.raw = o.Status + ": " + o.Raw
				}
				if rf := replays[bn]; rf != nil {
					a.replay = rf
					a.lemma = rf.Lemma
				}
			}
		}
	}
	for _, lj := range overBudget {
		name := lj.Package + "." + lj.Lemma + "#budget:symbolic execution or solving exceeded the time / memory budget"
		name = strings.Replace(strings.Replace(name, "github.com/free5gc/ike/", "", 1), "github.com/free5gc/ike.", "ike.", 1)
		a := &agg{name: name, status: "failing", solver: map[string]int{}, inst: 1, class: "budget", raw: lj.Error}
		a.replay = &ReplayFile{Obligation: name, Status: "no-failing-input-found", Note: "the lemma function could not be decided within the budget (it is on the unchanged tree): " + lj.Error}
		aggs[name] = a
		order = append(order, name)
	}
	// extra (non-SMT) passes of the property, e.g. frame analyses
	var extraObls []ExtraObl
	if meta.extra != nil {
		extraObls = meta.extra(P)
	}
	for _, e := range extraObls {
		a := &agg{name: e.Name, status: "discharged", solver: map[string]int{"dataflow": 1}, inst: 1, class: e.Class}
		if !e.OK {
			a.status = "failing"
			a.raw = e.Detail
			a.replay = &ReplayFile{Obligation: e.Name, Status: "no-failing-input-found", Note: e.Detail}
		}
		solverCount["dataflow (frame analysis over go/ssa)"]++
		aggs[e.Name] = a
		order = append(order, e.Name)
	}

	replayDir := filepath.Join(verifDir, "replays", prop)
	os.RemoveAll(replayDir)
	violations := 0
	knownHits := 0
	nObl, nDis, nBounded := 0, 0, 0
	var samples []interface{}
	var boundedSamples []interface{}
	var lines []string
	for _, bn := range order {
		a := aggs[bn]
		if a.bounded != "" {
			nBounded++
			if a.status != "discharged" {
				// a failing bounded stand-in is still a violation
			} else {
				if len(boundedSamples) < 4 && (a.class == "assert" || a.class == "post" || a.class == "step") {
					boundedSamples = append(boundedSamples, map[string]interface{}{"obligation": bn, "class": a.class, "instances": a.inst, "result": "unsat (discharged) - bounded stand-in: " + a.bounded, "solver_ms": a.ms})
				}
				continue
			}
		}
		kf := findKnown(known, prop, bn)
		if a.status == "discharged" {
			nObl++
			nDis++
			if len(samples) < 8 && (a.class == "assert" || a.class == "post" || a.class == "step" || a.class == "frame" || len(samples) < 2 && a.class != "nil") {
				samples = append(samples, map[string]interface{}{"obligation": bn, "class": a.class, "instances": a.inst, "result": "unsat (discharged)", "solver_ms": a.ms})
			}
			continue
		}
		if kf != nil && kf.Status == "known" {
			knownHits++
			lines = append(lines, fmt.Sprintf("KNOWN-FINDING: property=%s %s %s", prop, bn, kf.What))
			continue
		}
		if mismatch[a.from] && a.replay != nil && a.replay.Status != "confirmed" && a.replay.SearchCases > 0 {
			// contract mismatch (see above): the obligation could not be proved because the
			// invariant does not apply to the restructured loop; the executable lemma was run on
			// the real package on boundary-biased random inputs and no input violates it.
			// Reported as a bounded stand-in (the unbounded proof is lost), not as a violation.
			nBounded++
			boundedNotes = append(boundedNotes, a.from+": "+bn+": the loop contract no longer matches the code; decided by "+fmt.Sprint(a.replay.SearchCases)+" boundary-biased random cases on the real code only (no counterexample)")
			continue
		}
		nObl++
		violations++
		os.MkdirAll(replayDir, 0o755)
		rf := a.replay
		if rf == nil {
			rf = &ReplayFile{Obligation: bn, Status: "no-failing-input-found", SolverOutput: a.raw}
		}
		rf.Property = prop
		if rf.SolverOutput == "" {
			rf.SolverOutput = a.raw
		}
		path := filepath.Join(replayDir, sanitizeFile(bn)+".json")
		b, _ := json.MarshalIndent(rf, "", " ")
		os.WriteFile(path, b, 0o644)
		line := fmt.Sprintf("VIOLATION property=%s replay=%s obligation=%q", prop, path, bn)
		if rf.Status == "confirmed" {
			line += " observed=" + fmt.Sprintf("%q", rf.Observed)
		} else {
			line += " no-failing-input-found"
		}
		lines = append(lines, line)
	}
	broken := false
	for _, e := range engineErrors {
		fmt.Println("ENGINE-ERROR:", e)
		broken = true
	}
	for _, u := range unsupported {
		fmt.Println("ENGINE-UNSUPPORTED:", u)
	}
	for _, u := range mismatchNotes {
		fmt.Println("CONTRACT-MISMATCH (unbounded proof lost, search stands in):", u)
	}
	if len(unsupported) > 0 {
		// code outside the verifier's subset: the obligations generated from it are not
		// trustworthy, the property is undecided
		violations++
		os.MkdirAll(replayDir, 0o755)
		path := filepath.Join(replayDir, "unsupported-construct.json")
		b, _ := json.MarshalIndent(&ReplayFile{Property: prop, Obligation: "engine#subset", Status: "no-failing-input-found", Note: strings.Join(unsupported, "; ")}, "", " ")
		os.WriteFile(path, b, 0o644)
		lines = append(lines, fmt.Sprintf("VIOLATION property=%s replay=%s obligation=\"engine#subset: code left the verified subset\" no-failing-input-found", prop, path))
	}
	// vacuity guard
	if nObl+nBounded == 0 {
		fmt.Printf("check %s: zero obligations generated (broken check)\n", prop)
		broken = true
	}
	for _, l := range lines {
		fmt.Println(l)
	}
	wall := time.Since(t0).Seconds()
	fmt.Printf("check %s %s: %d obligations (%d lemma functions), %d discharged, %d violations, %d known findings, %d bounded stand-ins, solver %.1fs, wall %.1fs\n",
		prop, tier, nObl, len(lemmas), nDis, violations, knownHits, nBounded, float64(solverMs)/1000, wall)

	// evidence
	var tb []string
	tb = append(tb, "go/packages + go/types + go/ssa (x/tools v0.29.0) as the front end; the ikeverif symbolic executor and VC generator (/verif/engine)")
	tb = append(tb, "SMT solvers: z3 5.1.0 (z3-new), cvc5 1.0.3, z3 4.8.12")
	tb = append(tb, "runtime facts: len <= cap <= 2^48 for every slice; allocation never fails; no goroutines in library code")
	var ms []string
	for m := range models {
		ms = append(ms, m)
	}
	sort.Strings(ms)
	for _, m := range ms {
		tb = append(tb, "assumed contract: "+m)
	}
	var fl []string
	for f := range functions {
		if !strings.Contains(f, "lemma_") {
			fl = append(fl, f)
		}
	}
	sort.Strings(fl)
	var inv []string
	for k := range inferred {
		inv = append(inv, k)
	}
	sort.Strings(inv)
	var lemNames []string
	for _, l := range lemmas {
		lemNames = append(lemNames, l.Name())
	}
	samples = append(samples, boundedSamples...)
	cov := map[string]interface{}{
		"obligations":               nObl,
		"discharged":                nDis,
		"checker_cmd":               fmt.Sprintf("/verif/check %s %s", prop, tier),
		"trusted_base":              tb,
		"samples":                   samples,
		"lemma_functions":           lemNames,
		"functions_under_contract":  fl,
		"discharged_by_back_end":    solverCount,
		"solver_time_s":             float64(solverMs) / 1000,
		"loop_invariants_inferred":  inv,
		"bounded_standins":          boundedNotes,
		"bounded_obligations":       nBounded,
		"known_finding_obligations": knownHits,
		"explanation":               meta.explanation,
		"unsupported":               unsupported,
	}
	level := meta.level
	if level == "" {
		level = "proof"
	}
	ev := Evidence{PropertyID: prop, Tier: tier, Seed: seed, Level: level, Coverage: cov, Assumptions: append([]string{}, meta.assumptions...), WallS: wall, Violations: violations}
	if ev.Assumptions == nil {
		ev.Assumptions = []string{}
	}
	os.MkdirAll(filepath.Join(verifDir, "evidence"), 0o755)
	b, _ := json.MarshalIndent(ev, "", " ")
	os.WriteFile(filepath.Join(verifDir, "evidence", prop+".json"), b, 0o644)
	if broken {
		return 2
	}
	if violations > 0 {
		return 1
	}
	return 0
}

func tail(s string, n int) string {
	if len(s) > n {
		return s[len(s)-n:]
	}
	return s
}

func loadKnown(path string) []KnownFinding {
	var k []KnownFinding
	if b, err := os.ReadFile(path); err == nil {
		json.Unmarshal(b, &k)
	}
	return k
}

func findKnown(k []KnownFinding, prop, obl string) *KnownFinding {
	for i := range k {
		if k[i].Property == prop && k[i].Obligation == obl {
			return &k[i]
		}
	}
	return nil
}

type ExtraObl struct {
	Name   string
	Class  string
	OK     bool
	Detail string
}

type propInfo struct {
	level       string
	explanation string
	assumptions []string
	extra       func(P *Program) []ExtraObl
}

var propMeta = map[string]propInfo{}
