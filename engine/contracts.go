package main

// Contracts kept as structured comments in the overlay files (see DESIGN.md 2.2).

import (
	"golang.org/x/tools/go/ssa"
)

type LoopInv struct {
	Name string
	Fn   *ssa.Function // predicate function generated from the comment
}

type Summary struct {
	Name string
}

func (ex *Exec) checkInv(f *Frame, act *loopAct, inv *LoopInv, class string, reach *Term, get func(*ssa.Phi) Value) {
}

func (ex *Exec) assumeInv(f *Frame, act *loopAct, inv *LoopInv, reach *Term, get func(*ssa.Phi) Value) {
}

func (ex *Exec) applySummary(f *Frame, call *ssa.Call, fn *ssa.Function, sm *Summary, args []Value, reach *Term) (Value, *Term) {
	return ex.callFn(fn, args, reach)
}
