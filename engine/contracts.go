package main

// Contracts.
//
// A contract of function F is a wrapper function W in the overlay files, marked
// `//verif:contract <F>`, with F's parameters (receiver first) and results:
//
//	func contract_X(recv, params...) (results...) {
//		verifRequires(pre)            // pre-state
//		n0 := len(*recv)              // "old" values are ordinary locals
//		results = recv.F(params...)   // the real call
//		verifEnsures(post, "label")   // post-state; verifAny() gives ∀-variables
//		return
//	}
//
// Verifying W (it is a lemma function like any other) proves the contract: requires
// are assumed, the real body is executed, ensures become obligations (∀-variables
// are skolem constants).  At a call site of F in other code, when the configuration
// says so, W is executed instead of F with the inner call replaced by
// `havoc(assigns(F))`: requires become obligations of the caller, ensures become
// hypotheses (∀-variables are bound by a quantifier).  assigns(F) is computed from
// F's body (kinds written; objects that exist before the call keep their contents
// in kinds F only writes in objects it allocates).
//
// Loop invariants are functions marked `//verif:invariant <F> loop<N>` returning bool;
// their parameters are bound by name to the loop's variables / F's parameters.

import (
	"fmt"
	"go/types"
	"sort"
	"strings"

	"golang.org/x/tools/go/ssa"
)

type LoopInv struct {
	Name string
	Fn   *ssa.Function
}

type Summary struct {
	Name    string
	Wrapper *ssa.Function
}

type contractMode struct {
	target string // fnName of the contracted function
	use    bool   // true: wrapper stands in for the function at a call site
	bound  []*Term
	// use mode: result and reach of the (havoced) inner call; the wrapper returns exactly
	// these, whatever branching its specification expressions did afterwards
	called  bool
	callRes Value
	callOK  *Term
}

type modSet struct {
	kinds  map[string]bool   // kind -> written
	full   map[string]bool   // kind -> may be written in pre-existing objects
	params map[string]string // "<param index>|<suffix>" -> callee-side kind: cells written through a pointer parameter
}

func (P *Program) loadContractDirectives() {
	P.modSets = map[string]*modSet{}
	for name, ds := range P.directives {
		for _, d := range ds {
			f := strings.Fields(d)
			if len(f) < 2 {
				continue
			}
			var w *ssa.Function
			for path, sp := range P.spkgs {
				if P.isRepoPkg(path) {
					if fn := sp.Func(name); fn != nil {
						w = fn
					}
				}
			}
			if w == nil {
				continue
			}
			switch f[0] {
			case "contract":
				target := strings.Join(f[1:], " ")
				P.summaries[target] = &Summary{Name: target, Wrapper: w}
			case "invariant":
				if len(f) >= 3 {
					key := f[1] + "#" + f[2]
					P.loopInvs[key] = append(P.loopInvs[key], &LoopInv{Name: name, Fn: w})
				}
			case "step":
				// relation between the state at the loop head and the state at the end of
				// the same iteration; must hold for every iteration
				if len(f) >= 3 {
					key := f[1] + "#" + f[2]
					P.loopSteps[key] = append(P.loopSteps[key], &LoopInv{Name: name, Fn: w})
				}
			case "exit":
				// predicate over the state at the loop head that must hold whenever an
				// iteration leaves the loop other than through the loop condition (an early
				// return / break inside the body): "only then may the walk be given up"
				if len(f) >= 3 {
					key := f[1] + "#" + f[2]
					P.loopExits[key] = append(P.loopExits[key], &LoopInv{Name: name, Fn: w})
				}
			}
		}
	}
}

func (ex *Exec) topMode() *contractMode {
	if len(ex.modes) == 0 {
		return nil
	}
	return ex.modes[len(ex.modes)-1]
}

func (ex *Exec) applySummary(f *Frame, call *ssa.Call, fn *ssa.Function, sm *Summary, args []Value, reach *Term) (Value, *Term) {
	ex.modes = append(ex.modes, &contractMode{target: fnName(fn), use: true})
	defer func() { ex.modes = ex.modes[:len(ex.modes)-1] }()
	ex.summariesUsed[fnName(fn)] = true
	m := ex.modes[len(ex.modes)-1]
	v, ok := ex.callFn(sm.Wrapper, args, reach)
	if m.called {
		return m.callRes, m.callOK
	}
	return v, ok
}

// havocCall replaces a call of fn by its frame: everything it may assign becomes
// unknown, the result is unconstrained (but well-typed).
func (ex *Exec) havocCall(fn *ssa.Function, args []Value, reach *Term) (Value, *Term) {
	ms := ex.P.modSetOf(fn)
	water := ex.ctr()
	c := Fresh("ctr.call."+fn.Name(), SInt, water.lo, nil)
	ex.assumeGlobal(Ge(c, water))
	var kinds []string
	for k := range ms.kinds {
		kinds = append(kinds, k)
	}
	sort.Strings(kinds)
	for _, kn := range kinds {
		k := ex.mem.kinds[kn]
		if k == nil {
			k = ex.P.kindTemplate(ex, kn)
			if k == nil {
				continue
			}
		}
		var w *Term
		if !ms.full[kn] {
			w = water
		}
		ex.mem.Havoc(k, reach, w, c)
		ex.noteWrite(k, reach, c, Int(0)) // the enclosing loop's write set includes it
		if ms.full[kn] {
			ex.noteWriteOld(k)
		}
	}
	// cells written through pointer parameters: exactly those cells of the actual argument
	var pws []string
	for pw := range ms.params {
		pws = append(pws, pw)
	}
	sort.Strings(pws)
	for _, pw := range pws {
		var pi int
		var suffix string
		if i := strings.Index(pw, "|"); i > 0 {
			fmt.Sscanf(pw[:i], "%d", &pi)
			suffix = pw[i+1:]
		}
		if pi >= len(args) {
			continue
		}
		actual, ok := args[pi].(PtrV)
		if !ok {
			continue
		}
		tmpl, ok := ex.P.kindTemplates[ms.params[pw]]
		if !ok {
			continue
		}
		k := ex.mem.kind(ex.ptrBase(actual)+suffix, tmpl.sort, tmpl.lo, tmpl.hi, tmpl.isRef)
		v := Fresh("mod."+fn.Name()+suffix, tmpl.sort, tmpl.lo, tmpl.hi)
		if tmpl.isRef {
			ex.assumeGlobal(Le(v, c))
		}
		ex.mem.Store(k, reach, actual.Ref, ex.idx(actual), v)
	}
	ex.ctrBase, ex.ctrOff = c, 0
	res := ex.havocResult(fn, reach)
	// error results are nil or a proper error object
	rt := resultType(fn)
	constrain := func(t types.Type, v Value) {
		if iv, ok := v.(IfaceV); ok && t.String() == "error" {
			ex.assumeGlobal(Or(Eq(iv.Tag, Int(0)), Eq(iv.Tag, ex.errTag())))
		}
	}
	if tt, ok := rt.(*types.Tuple); ok {
		for i := 0; i < tt.Len(); i++ {
			constrain(tt.At(i).Type(), res.(TupleV)[i])
		}
	} else if rt != nil {
		constrain(rt, res)
	}
	if m := ex.topMode(); m != nil && m.use {
		m.called, m.callRes, m.callOK = true, res, reach
	}
	return res, reach
}

// noteWriteOld marks kind k as written in pre-existing objects for every enclosing scope.
func (ex *Exec) noteWriteOld(k *kindInfo) {
	for _, l := range ex.loops {
		ex.cfg.fullHavoc[l.key+"|"+k.name] = true
	}
}

// kindTemplate recreates a kind (sort, range) known from the mod-set computation.
func (P *Program) kindTemplate(ex *Exec, name string) *kindInfo {
	t, ok := P.kindTemplates[name]
	if !ok {
		return nil
	}
	return ex.mem.kind(name, t.sort, t.lo, t.hi, t.isRef)
}

// modSetOf computes (once) which kinds fn may write, and which of them only in
// objects fn itself allocates.
func (P *Program) modSetOf(fn *ssa.Function) *modSet {
	key := fnName(fn)
	if ms, ok := P.modSets[key]; ok {
		return ms
	}
	cfg := newRunCfg()
	cfg.bytesLayer = true // ghost state of hash / cipher objects is part of the frame
	cfg.fnScope = "fn:" + key
	// the function's own callees may use their contracts
	for n := range P.summaries {
		if n != key {
			cfg.useSummary[n] = true
		}
	}
	P.modSets[key] = &modSet{kinds: map[string]bool{}, full: map[string]bool{}} // guards recursion
	r := P.VerifyFunction(fn, cfg, VerifyOpts{TimeoutMs: 4000, Workers: 4, OptionalOnly: true})
	ms := &modSet{kinds: map[string]bool{}, full: map[string]bool{}, params: cfg.paramWrites}
	if P.kindTemplates == nil {
		P.kindTemplates = map[string]kindInfo{}
	}
	for _, kn := range cfg.paramWrites {
		if ki := r.ex.mem.kinds[kn]; ki != nil {
			P.kindTemplates[kn] = kindInfo{name: kn, sort: ki.sort, lo: ki.lo, hi: ki.hi, isRef: ki.isRef}
		}
	}
	for k := range cfg.modKinds[cfg.fnScope] {
		ms.kinds[k] = true
		if cfg.fullHavoc[cfg.fnScope+"|"+k] {
			ms.full[k] = true
		}
		if ki := r.ex.mem.kinds[k]; ki != nil {
			if P.kindTemplates == nil {
				P.kindTemplates = map[string]kindInfo{}
			}
			P.kindTemplates[k] = kindInfo{name: k, sort: ki.sort, lo: ki.lo, hi: ki.hi, isRef: ki.isRef}
		}
	}
	P.modSets[key] = ms
	return ms
}

func contractIntrinsics(tab map[string]func(ex *Exec, f *Frame, call *ssa.Call, args []Value, reach *Term) (Value, *Term)) {
	tab["verifRequires"] = func(ex *Exec, f *Frame, call *ssa.Call, args []Value, reach *Term) (Value, *Term) {
		c := args[0].(*Term)
		if m := ex.topMode(); m != nil && m.use {
			ex.oblige("pre", m.target+":"+ex.exprText(call.Pos(), "call"), reach, c)
			return nil, reach
		}
		ex.assume(reach, c)
		return nil, And(reach, c)
	}
	tab["verifEnsures"] = func(ex *Exec, f *Frame, call *ssa.Call, args []Value, reach *Term) (Value, *Term) {
		c := args[0].(*Term)
		label := "post"
		if s, ok := args[1].(StrV); ok && s.Lit != nil {
			label = *s.Lit
		}
		if m := ex.topMode(); m != nil && m.use {
			ex.assumeGlobal(Forall(Implies(reach, c)))
			return nil, reach
		}
		ex.oblige("post", label, reach, c)
		return nil, reach
	}
	tab["verifAny"] = func(ex *Exec, f *Frame, call *ssa.Call, args []Value, reach *Term) (Value, *Term) {
		ik, _ := intKindOf(call.Type())
		if m := ex.topMode(); m != nil && m.use || ex.bindAny {
			return BoundVar("any", ik.lo(), ik.hi()), reach
		}
		v := Fresh("any", SInt, ik.lo(), ik.hi())
		ex.skolems = append(ex.skolems, v)
		return v, reach
	}
}

// ---------- loop invariants given as functions ----------

// invArgs binds the invariant function's parameters by name: a loop variable (phi
// comment), a parameter of the enclosing function, or <param>0 for its entry value.
func (ex *Exec) invArgs(f *Frame, act *loopAct, inv *LoopInv, get func(*ssa.Phi) Value) ([]Value, bool) {
	var out []Value
	for _, p := range inv.Fn.Params {
		name := p.Name()
		var v Value
		found := false
		for phi := range act.entVals {
			if phi.Comment == name {
				v, found = get(phi), true
				break
			}
		}
		if !found {
			for _, fp := range f.fn.Params {
				if fp.Name() == name || fp.Name()+"0" == name {
					v, found = f.vals[fp], true
					break
				}
			}
		}
		if !found {
			ex.unsupported(fmt.Sprintf("invariant %s: cannot bind parameter %s in %s", inv.Name, name, fnName(f.fn)))
			return nil, false
		}
		out = append(out, v)
	}
	return out, true
}

func (ex *Exec) evalInv(f *Frame, act *loopAct, inv *LoopInv, reach *Term, get func(*ssa.Phi) Value, bind bool) *Term {
	args, ok := ex.invArgs(f, act, inv, get)
	if !ok {
		return True()
	}
	old := ex.bindAny
	ex.bindAny = bind
	ex.specDepth++
	savedCur := ex.cur
	v, _ := ex.callFn(inv.Fn, args, reach)
	ex.cur = savedCur
	ex.specDepth--
	ex.bindAny = old
	t, _ := v.(*Term)
	if t == nil {
		return True()
	}
	return t
}

func (ex *Exec) checkInv(f *Frame, act *loopAct, inv *LoopInv, class string, reach *Term, get func(*ssa.Phi) Value) {
	c := ex.evalInv(f, act, inv, reach, get, false)
	ex.oblige(class, act.key+":"+inv.Name, reach, c)
}

func (ex *Exec) assumeInv(f *Frame, act *loopAct, inv *LoopInv, reach *Term, get func(*ssa.Phi) Value) {
	c := ex.evalInv(f, act, inv, reach, get, true)
	ex.assumeGlobal(Forall(Implies(reach, c)))
}

// stepHeadArgs evaluates, at the loop head, the `_h` parameters of a step predicate:
// <loopvar>_h is the loop variable's value at the head; <ptrparam>_h (typed as the
// pointee) is the pointee of the enclosing function's pointer parameter at the head.
func (ex *Exec) stepHeadArgs(f *Frame, act *loopAct, st *LoopInv) map[string]Value {
	out := map[string]Value{}
	for _, p := range st.Fn.Params {
		name := p.Name()
		if !strings.HasSuffix(name, "_h") {
			continue
		}
		base := strings.TrimSuffix(name, "_h")
		found := false
		for phi, hv := range act.headVals {
			if phi.Comment == base {
				out[name], found = hv, true
				break
			}
		}
		if found {
			continue
		}
		for _, fp := range f.fn.Params {
			if fp.Name() != base {
				continue
			}
			v := f.vals[fp]
			if pt, ok := fp.Type().Underlying().(*types.Pointer); ok && types.Identical(pt.Elem(), p.Type()) {
				out[name], found = ex.loadPtr(ex.ptr(v)), true
			} else if types.Identical(fp.Type(), p.Type()) {
				out[name], found = v, true
			}
		}
		if !found {
			ex.unsupported(fmt.Sprintf("step %s: cannot bind %s", st.Name, name))
		}
	}
	return out
}

func (ex *Exec) checkStep(f *Frame, act *loopAct, st *LoopInv, headArgs map[string]Value, reach *Term, getNext func(*ssa.Phi) Value) {
	var args []Value
	for _, p := range st.Fn.Params {
		name := p.Name()
		if v, ok := headArgs[name]; ok {
			args = append(args, v)
			continue
		}
		var v Value
		found := false
		for phi := range act.headVals {
			if phi.Comment == name {
				v, found = getNext(phi), true
				break
			}
		}
		if !found {
			for _, fp := range f.fn.Params {
				if fp.Name() == name {
					v, found = f.vals[fp], true
				}
			}
		}
		if !found {
			ex.unsupported(fmt.Sprintf("step %s: cannot bind %s", st.Name, name))
			return
		}
		args = append(args, v)
	}
	ex.specDepth++
	savedCur := ex.cur
	v, _ := ex.callFn(st.Fn, args, reach)
	ex.cur = savedCur
	ex.specDepth--
	t, _ := v.(*Term)
	if t == nil {
		return
	}
	ex.oblige("step", act.key+":"+st.Name, reach, t)
}
