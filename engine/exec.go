package main

// Symbolic executor over go/ssa: one pass over the acyclic CFG (back edges cut at
// loop heads), guarded memory updates, obligations generated per instruction.

import (
	"fmt"
	"go/ast"
	"go/token"
	"go/types"
	"math/big"
	"os"
	"sort"
	"strings"

	"golang.org/x/tools/go/ssa"
)

type Obligation struct {
	Name       string
	Class      string
	Fn         string
	Goal       *Term // must be valid under hyps[:NHyps]
	NHyps      int
	Optional   bool   // Houdini candidate / frame candidate: failure is not a violation
	CandKey    string // loopKey|candName for optional ones
	Alts       []*Term
	prevSolver string
	prevMillis int64
	HypIdx     int    // index of the hypothesis that assumes this obligation afterwards (-1: none)
	Bounded    string // non-empty: bounded stand-in, with the bound
	Status     string // discharged refuted unknown
	Solver     string
	Millis     int64
	Model      map[string]string
	Raw        string
	ValTerms   []*Term
	ValNames   []string
}

type loopAct struct {
	key   string
	water *Term // counter at loop entry
	ctr   *Term // counter at start of this iteration
	info  *loopInfo
	// state for variant / candidate checks
	headVals  map[*ssa.Phi]Value
	entVals   map[*ssa.Phi]Value
	cands     []loopCand
	variants  []variantCand
	varGoals  [][]*Term // per variant candidate, per back edge
	steps     []*LoopInv
	stepHead  []map[string]Value
	exits     []*LoopInv
	exitHead  []map[string]Value
	varHead   []*Term
	frame     *Frame
	invs      []*LoopInv
	backsSeen int
}

type loopCand struct {
	name string
	eval func(get func(*ssa.Phi) Value) *Term
}

type variantCand struct {
	name   string
	eval   func(get func(*ssa.Phi) Value, f *Frame) *Term
	atHead bool // depends on memory: its head value must be captured at the loop head
}

type RunCfg struct {
	disabled     map[string]bool            // loopKey|candName dropped by Houdini
	modKinds     map[string]map[string]bool // loopKey -> kinds written in the loop
	fullHavoc    map[string]bool            // loopKey|kind : writes reach objects the caller handed in
	fnHavoc      map[string]bool            // loopKey|kind : writes reach pre-loop objects, all allocated by the enclosing function
	unroll       map[string]int             // loopKey -> K (bounded stand-in / full unroll)
	unwindAssert map[string]bool            // loopKey: prove that K iterations suffice (complete)
	initMode     bool                       // executing the package initialisers: loops are run concretely
	unrollAll    int                        // != 0: every loop without an entry in unroll is unrolled this often (-1: zero times)
	noVariant    map[string]bool            // loops whose termination is not claimed (probabilistic)
	boundedNote  string                     // the lemma is a bounded stand-in (description of the bound)
	maxLen       map[string]int64           // lemma parameter -> maximal length (a precondition of the lemma, as bounds)
	fnScope      string                     // non-empty: record the write set of the verified function under this key
	paramWrites  map[string]string          // "<param index>|<suffix>" -> kind name (frame computation)
	strict       bool                       // strict (len, not cap) bounds on input-derived slices
	maxDepth     int
	useSummary   map[string]bool // functions whose contract is used instead of the body
	bytesLayer   bool            // abstract byte-string values and crypto function symbols (bytes.go)
	timeoutMs    int             // per-obligation solver budget (0: the tier's default)
}

func newRunCfg() *RunCfg {
	return &RunCfg{disabled: map[string]bool{}, modKinds: map[string]map[string]bool{}, fullHavoc: map[string]bool{}, fnHavoc: map[string]bool{},
		unroll: map[string]int{}, unwindAssert: map[string]bool{}, noVariant: map[string]bool{}, maxLen: map[string]int64{}, paramWrites: map[string]string{}, strict: true, maxDepth: 14, useSummary: map[string]bool{}}
}

type Exec struct {
	P             *Program
	mem           *Mem
	hyps          []*Term
	hypSeen       map[int]bool
	obls          []*Obligation
	ctrBase       *Term
	ctrOff        int64
	boxes         map[int]Value
	noWF          bool
	loops         []*loopAct
	frameMarks    []*frameMark
	initVisited   map[int]map[int64]bool
	unsup         []string
	inputArr      map[int]bool
	cfg           *RunCfg
	names         map[string]int
	depth         int
	fnStack       []string
	quant         []string // quantified axioms (SMT text) for the Bytes layer
	ghost         map[string]Value
	varHooks      []func() *Term // extra variant candidates (reader positions)
	inFuncs       map[string]bool
	notes         []string
	covers        []*Obligation
	skolems       []*Term
	bounded       []string
	randDraws     []randDraw
	bytesEqHook   func(a, b SliceV) *Term
	randInts      []*Term
	randIntFail   []*Term // reach ∧ failed, per crypto/rand.Int call
	cur           *Term   // reach condition of the instruction being executed
	modes         []*contractMode
	summariesUsed map[string]bool
	bindAny       bool
	specDepth     int
	argPrefix     string
	scopeParams   []scopeParam
	hmacNewHook   func(reach, ref, alg *Term, key SliceV)
	hashResetHook func(reach, ref *Term)
	hashWriteHook func(reach, ref *Term, p SliceV)
	hashSumHook   func(reach, ref, size *Term) *Term
	aesNewHook    func(reach, ref *Term, key SliceV)
	cbcNewHook    func(reach, ref, block *Term, iv SliceV, dir int64)
	cbcCryptHook  func(reach, ref *Term, src SliceV) *Term
	bytesCache    map[bytesKey]*Term
	valueRefs     map[int]*Term
	valueLens     map[int]*Term
	extSeen       map[string]map[int]bool
	extList       map[string][]*Term
	cbcUses       []cbcUse
	cutsTried     int
	bcatNames     map[int]*Term
	lens          map[int]*Term
	rangeMapType  map[int]*types.Map
	extOrigin     map[int]bool
	cutsProved    int
}

func newExec(P *Program, cfg *RunCfg) *Exec {
	ex := &Exec{P: P, hypSeen: map[int]bool{}, boxes: map[int]Value{}, inputArr: map[int]bool{}, cfg: cfg,
		names: map[string]int{}, ghost: map[string]Value{}, inFuncs: map[string]bool{}, summariesUsed: map[string]bool{}}
	ex.mem = newMem(ex)
	ex.ctrBase = Int(0)
	ex.rangeMapType = map[int]*types.Map{}
	if cfg != nil && cfg.bytesLayer {
		ex.installBytesLayer()
	}
	return ex
}

func (ex *Exec) unsupported(msg string) {
	for _, m := range ex.unsup {
		if m == msg {
			return
		}
	}
	ex.unsup = append(ex.unsup, msg)
}

func (ex *Exec) assumeGlobal(t *Term) {
	// facts derived while executing an instruction may rest on simplifications that are
	// valid only under that instruction's reach condition: guard them with it
	if ex.cur != nil && !ex.cur.IsTrue() {
		t = Implies(ex.cur, t)
	}
	if containsBound(t) {
		t = Forall(t) // a fact about a term under a quantifier holds for every instance
	}
	if t.IsTrue() || ex.hypSeen[t.id] {
		return
	}
	ex.hypSeen[t.id] = true
	ex.hyps = append(ex.hyps, t)
	if traceHyp != "" {
		if str := t.StringLimit(400000); strings.Contains(str, traceHyp) {
			if len(str) > 600 {
				str = str[len(str)-600:]
			}
			fmt.Fprintf(os.Stderr, "HYP[%d] ...%s\n", len(ex.hyps)-1, str)
		}
	}
}

var traceHyp = os.Getenv("IKEVERIF_TRACEHYP")

func (ex *Exec) assume(reach, t *Term) { ex.assumeGlobal(Implies(reach, t)) }

func (ex *Exec) ctr() *Term { return Add(ex.ctrBase, Int(ex.ctrOff)) }

func (ex *Exec) newObj() *Term {
	ex.ctrOff++
	return ex.ctr()
}

func (ex *Exec) curFn() string {
	if len(ex.fnStack) == 0 {
		return "?"
	}
	return ex.fnStack[len(ex.fnStack)-1]
}

// oblige records a proof obligation `reach => cond`; once recorded it is assumed.
func (ex *Exec) oblige(class, what string, reach, cond *Term) *Obligation {
	if ex.specDepth > 0 {
		return nil // inside a specification expression
	}
	goal := Implies(reach, cond)
	if containsBound(goal) {
		if m := ex.topMode(); m != nil && m.use && containsBound(cond) {
			return nil // mentions a quantified variable: part of a specification, not of the code
		}
		ex.unsupported("quantified variable escaped into the obligation " + class + ":" + what)
		return nil
	}
	base := ex.curFn() + "#" + class + ":" + what
	ex.names[base]++
	name := base
	if n := ex.names[base]; n > 1 {
		name = fmt.Sprintf("%s@%d", base, n)
	}
	o := &Obligation{Name: name, Class: class, Fn: ex.curFn(), Goal: goal, NHyps: len(ex.hyps)}
	if goal.IsTrue() {
		o.Status = "discharged"
		o.Solver = "syntactic"
	}
	ex.obls = append(ex.obls, o)
	o.HypIdx = -1
	if class != "step" {
		n0 := len(ex.hyps)
		// assert-then-assume: one defect gives one failing obligation.  Step predicates are
		// pure observations (nothing later depends on them) and belong to other properties,
		// so they must not hide a failing variant or bounds obligation of the same iteration.
		ex.assumeGlobal(goal)
		if len(ex.hyps) == n0+1 {
			o.HypIdx = n0 // (not set when the fact was already known: nothing to retract)
		}
	}
	return o
}

func (ex *Exec) noteWrite(k *kindInfo, guard, ref, n *Term) {
	ex.frameNote(k, guard, ref, n)
	for _, l := range ex.loops {
		if l.key == ex.cfg.fnScope && l.info == nil {
			// write through a pointer parameter of the function whose frame is being computed
			rel := false
			for i, sp := range ex.scopeParams {
				if sp.ref == ref && strings.HasPrefix(k.name, sp.prefix) {
					pw := ex.cfg.paramWrites
					pw[fmt.Sprintf("%d|%s", i, k.name[len(sp.prefix):])] = k.name
					rel = true
				}
			}
			if rel {
				continue
			}
		}
		mk := ex.cfg.modKinds[l.key]
		if mk == nil {
			mk = map[string]bool{}
			ex.cfg.modKinds[l.key] = mk
		}
		if !mk[k.name] {
			mk[k.name] = true
			ex.notes = append(ex.notes, "modkind:"+l.key+":"+k.name)
		}
		fk := l.key + "|" + k.name
		if !ex.cfg.fullHavoc[fk] {
			// frame candidate: the written object is fresh since loop entry - or, second
			// tier, at least allocated by the function the loop belongs to (so that what the
			// caller handed in keeps its contents across the loop)
			w := l.water
			if ex.cfg.fnHavoc[fk] && l.frame != nil && l.frame.entryCtr != nil {
				w = l.frame.entryCtr
			}
			goal := Implies(And(guard, Gt(n, Int(0))), Gt(ref, w))
			o := &Obligation{Name: "frame:" + fk, Class: "frame", Fn: ex.curFn(), Goal: goal, NHyps: len(ex.hyps), Optional: true, CandKey: "frame|" + fk}
			if goal.IsTrue() {
				o.Status = "discharged"
				o.Solver = "syntactic"
			}
			ex.obls = append(ex.obls, o)
		}
	}
}

// ---------- per-function static info ----------

type loopInfo struct {
	head    *ssa.BasicBlock
	body    map[*ssa.BasicBlock]bool
	ordinal int
	backs   []*ssa.BasicBlock // sources of back edges
}

type fnInfo struct {
	order []*ssa.BasicBlock
	back  map[[2]int]bool
	loops map[*ssa.BasicBlock]*loopInfo
	inLp  map[*ssa.BasicBlock][]*loopInfo // enclosing loops, outermost first
}

func (P *Program) info(fn *ssa.Function) *fnInfo {
	if fi, ok := P.fnInfo[fn]; ok {
		return fi
	}
	fi := &fnInfo{back: map[[2]int]bool{}, loops: map[*ssa.BasicBlock]*loopInfo{}, inLp: map[*ssa.BasicBlock][]*loopInfo{}}
	for _, b := range fn.Blocks {
		for _, s := range b.Succs {
			if s.Dominates(b) {
				fi.back[[2]int{b.Index, s.Index}] = true
				li := fi.loops[s]
				if li == nil {
					li = &loopInfo{head: s, body: map[*ssa.BasicBlock]bool{s: true}}
					fi.loops[s] = li
				}
				li.backs = append(li.backs, b)
				// natural loop
				stack := []*ssa.BasicBlock{b}
				for len(stack) > 0 {
					x := stack[len(stack)-1]
					stack = stack[:len(stack)-1]
					if li.body[x] {
						continue
					}
					li.body[x] = true
					for _, p := range x.Preds {
						stack = append(stack, p)
					}
				}
			}
		}
	}
	// loop ordinals by header position
	var heads []*ssa.BasicBlock
	for h := range fi.loops {
		heads = append(heads, h)
	}
	sort.Slice(heads, func(i, j int) bool { return heads[i].Index < heads[j].Index })
	for i, h := range heads {
		fi.loops[h].ordinal = i + 1
	}
	for _, b := range fn.Blocks {
		for _, h := range heads {
			if fi.loops[h].body[b] {
				fi.inLp[b] = append(fi.inLp[b], fi.loops[h])
			}
		}
		sort.Slice(fi.inLp[b], func(i, j int) bool { return len(fi.inLp[b][i].body) > len(fi.inLp[b][j].body) })
	}
	// reverse post-order ignoring back edges
	seen := map[*ssa.BasicBlock]bool{}
	var post []*ssa.BasicBlock
	var dfs func(b *ssa.BasicBlock)
	dfs = func(b *ssa.BasicBlock) {
		seen[b] = true
		for _, s := range b.Succs {
			if fi.back[[2]int{b.Index, s.Index}] || seen[s] {
				continue
			}
			dfs(s)
		}
		post = append(post, b)
	}
	if len(fn.Blocks) > 0 {
		dfs(fn.Blocks[0])
	}
	for i := len(post) - 1; i >= 0; i-- {
		fi.order = append(fi.order, post[i])
	}
	P.fnInfo[fn] = fi
	return fi
}

// ---------- frames ----------

type Frame struct {
	fn       *ssa.Function
	vals     map[ssa.Value]Value
	edge     map[[2]int]*Term
	reach    map[*ssa.BasicBlock]*Term
	cur      *Term
	rets     []retSite
	info     *fnInfo
	acts     map[*loopInfo]*loopAct
	unrollK  map[*loopInfo]int
	done     map[*ssa.BasicBlock]bool
	unr      map[*loopInfo]*unrollState
	entryCtr *Term // allocation counter at entry: objects above it were allocated by this call
}

type unrollState struct {
	cur      *Term
	backCond *Term
	nextPhi  map[*ssa.Phi]Value
	first    bool
}

type retSite struct {
	reach *Term
	val   Value
}

func fnName(fn *ssa.Function) string {
	s := fn.String()
	s = strings.ReplaceAll(s, "github.com/free5gc/ike/", "")
	s = strings.ReplaceAll(s, "github.com/free5gc/ike.", "ike.")
	return s
}

// callFn executes fn (inlined) with the given arguments under reach; returns the
// merged result and the condition under which the call returns normally.
func (ex *Exec) callFn(fn *ssa.Function, args []Value, reach *Term) (Value, *Term) {
	if reach.IsFalse() {
		return ex.zeroResult(fn), False()
	}
	if fn.Blocks == nil {
		ex.unsupported("no body: " + fn.String())
		return ex.havocResult(fn, reach), reach
	}
	if ex.depth >= ex.cfg.maxDepth {
		ex.unsupported("depth limit at " + fn.String())
		return ex.havocResult(fn, reach), reach
	}
	if traceCalls {
		fmt.Fprintf(os.Stderr, "%s%s terms=%d reads=%d\n", strings.Repeat("  ", ex.depth), fnName(fn), TS.next, readCount)
	}
	ex.depth++
	ex.fnStack = append(ex.fnStack, fnName(fn))
	defer func() { ex.depth--; ex.fnStack = ex.fnStack[:len(ex.fnStack)-1] }()

	f := &Frame{fn: fn, vals: map[ssa.Value]Value{}, edge: map[[2]int]*Term{}, reach: map[*ssa.BasicBlock]*Term{},
		info: ex.P.info(fn), acts: map[*loopInfo]*loopAct{}, entryCtr: ex.ctr()}
	for i, p := range fn.Params {
		f.vals[p] = args[i]
	}
	for i, fv := range fn.FreeVars {
		if i < len(args)-len(fn.Params) {
			f.vals[fv] = args[len(fn.Params)+i]
		}
	}
	f.done = map[*ssa.BasicBlock]bool{}
	f.unr = map[*loopInfo]*unrollState{}
	ex.runBlocks(f, f.info.order, reach)
	// merge returns
	if len(f.rets) == 0 {
		return ex.zeroResult(fn), False()
	}
	res := f.rets[len(f.rets)-1].val
	rr := f.rets[len(f.rets)-1].reach
	rt := resultType(fn)
	for i := len(f.rets) - 2; i >= 0; i-- {
		if rt != nil {
			res = ex.iteValue(f.rets[i].reach, rt, f.rets[i].val, res)
		}
		rr = Or(rr, f.rets[i].reach)
	}
	return res, rr
}

func resultType(fn *ssa.Function) types.Type {
	r := fn.Signature.Results()
	switch r.Len() {
	case 0:
		return nil
	case 1:
		return r.At(0).Type()
	}
	return r
}

func (ex *Exec) zeroResult(fn *ssa.Function) Value {
	rt := resultType(fn)
	if rt == nil {
		return nil
	}
	if tt, ok := rt.(*types.Tuple); ok {
		out := make(TupleV, tt.Len())
		for i := range out {
			out[i] = ex.zeroValue(tt.At(i).Type())
		}
		return out
	}
	return ex.zeroValue(rt)
}

func (ex *Exec) havocResult(fn *ssa.Function, reach *Term) Value {
	rt := resultType(fn)
	if rt == nil {
		return nil
	}
	if tt, ok := rt.(*types.Tuple); ok {
		out := make(TupleV, tt.Len())
		for i := range out {
			out[i] = ex.freshValue(tt.At(i).Type(), fn.Name()+".r", true)
		}
		return out
	}
	return ex.freshValue(rt, fn.Name()+".r", true)
}

// freshValue makes an unconstrained value of type t (constrained by the type only).
// existing: references denote objects that already exist (<= current counter).
func (ex *Exec) freshValue(t types.Type, hint string, existing bool) Value {
	cs := layout(t)
	ctr := ex.ctr()
	v := ex.assembleNoWF(t, cs, func(c comp) *Term {
		x := Fresh(hint+c.suffix, c.sort, c.lo, c.hi)
		if c.isRef && existing {
			ex.assumeGlobal(Le(x, ctr))
		}
		return x
	})
	ex.assumeWFDeep(t, v)
	return v
}

func (ex *Exec) assumeWFDeep(t types.Type, v Value) {
	switch x := v.(type) {
	case SliceV:
		ex.assumeSliceWF(x)
	case StrV:
		ex.assumeGlobal(And(Le(Int(0), x.Len), Le(Int(0), x.Off)))
	case StructV:
		st := t.Underlying().(*types.Struct)
		for i, f := range x.Fields {
			ex.assumeWFDeep(st.Field(i).Type(), f)
		}
	}
}

func (ex *Exec) edgeCond(f *Frame, from, to *ssa.BasicBlock) *Term {
	if c, ok := f.edge[[2]int{from.Index, to.Index}]; ok {
		return c
	}
	return False()
}

func (ex *Exec) execBlock(f *Frame, b *ssa.BasicBlock, entry *Term) {
	fi := f.info
	// reach condition
	var reach *Term
	if b.Index == 0 {
		reach = entry
	} else {
		reach = False()
		for _, p := range b.Preds {
			if fi.back[[2]int{p.Index, b.Index}] {
				continue
			}
			reach = Or(reach, ex.edgeCond(f, p, b))
		}
	}
	var lpU *unrollState
	if l, ok := fi.loops[b]; ok {
		if u := f.unr[l]; u != nil {
			lpU = u
			reach = u.cur
		}
	}
	f.reach[b] = reach
	f.cur = reach
	ex.cur = reach
	if reach.IsFalse() {
		return
	}
	// active loops for this block
	saved := ex.loops
	defer func() { ex.loops = saved }()
	var lp *loopInfo
	if l, ok := fi.loops[b]; ok {
		lp = l
	}
	// loops entered earlier in this frame and containing b
	for _, l := range fi.inLp[b] {
		if l == lp {
			continue
		}
		if a := f.acts[l]; a != nil {
			ex.loops = append(ex.loops, a)
		}
	}
	if lp != nil && lpU == nil {
		ex.loopHead(f, b, lp, reach)
		ex.loops = append(ex.loops, f.acts[lp])
	}
	for _, ins := range b.Instrs {
		if phi, ok := ins.(*ssa.Phi); ok {
			if lp != nil {
				continue // done by loopHead / unrollLoop
			}
			f.vals[phi] = ex.phiValue(f, b, phi, false)
			continue
		}
		if f.cur.IsFalse() {
			return
		}
		ex.execInstr(f, b, ins)
	}
}

func (ex *Exec) phiValue(f *Frame, b *ssa.BasicBlock, phi *ssa.Phi, entryOnly bool) Value {
	var res Value
	first := true
	for i := len(b.Preds) - 1; i >= 0; i-- {
		p := b.Preds[i]
		if f.info.back[[2]int{p.Index, b.Index}] {
			continue
		}
		c := ex.edgeCond(f, p, b)
		if c.IsFalse() {
			continue
		}
		v := ex.val(f, phi.Edges[i])
		if first {
			res = v
			first = false
		} else {
			res = ex.iteValue(c, phi.Type(), v, res)
		}
	}
	if first {
		return ex.zeroValue(phi.Type())
	}
	return res
}

// val returns the symbolic value of an SSA value in frame f.
func (ex *Exec) val(f *Frame, v ssa.Value) Value {
	switch x := v.(type) {
	case *ssa.Const:
		return ex.constVal(x)
	case *ssa.Global:
		return ex.P.globalPtr(x)
	case *ssa.Function:
		return FuncV{Tag: Int(int64(ex.P.funcID(x)))}
	case *ssa.Builtin:
		return x
	}
	if r, ok := f.vals[v]; ok {
		return r
	}
	ex.unsupported(fmt.Sprintf("undefined value %s in %s", v.Name(), f.fn.Name()))
	r := ex.freshValue(v.Type(), "undef."+v.Name(), true)
	f.vals[v] = r
	return r
}

func (ex *Exec) constVal(c *ssa.Const) Value {
	t := c.Type()
	if c.Value == nil {
		return ex.zeroValue(t)
	}
	if _, ok := intKindOf(t); ok {
		s := c.Value.ExactString()
		n, ok := new(big.Int).SetString(s, 10)
		if !ok {
			panic("const int " + s)
		}
		return IntB(n)
	}
	if isBool(t) {
		return Bool(c.Value.String() == "true")
	}
	if isString(t) {
		return ex.strLit(constantStringVal(c))
	}
	ex.unsupported("const of type " + t.String())
	return ex.freshValue(t, "const", true)
}

func (ex *Exec) strLit(s string) StrV {
	if v, ok := ex.P.litObjs[s]; ok {
		return v
	}
	// literal objects get negative ids below every input reference range marker
	ex.P.litCtr--
	ref := Int(ex.P.litCtr)
	ss := s
	v := StrV{Arr: ref, Off: Int(0), Len: Int(int64(len(s))), Lit: &ss}
	ex.P.litObjs[s] = v
	ex.P.litByRef[ex.P.litCtr] = s
	return v
}

// ---------- loops ----------

func (ex *Exec) loopKey(f *Frame, lp *loopInfo) string {
	return fmt.Sprintf("%s#loop%d", fnName(f.fn), lp.ordinal)
}

func (ex *Exec) loopHead(f *Frame, b *ssa.BasicBlock, lp *loopInfo, entry *Term) {
	key := ex.loopKey(f, lp)
	act := &loopAct{key: key, info: lp, headVals: map[*ssa.Phi]Value{}, entVals: map[*ssa.Phi]Value{}, frame: f}
	f.acts[lp] = act
	act.water = ex.ctr()
	// entry values of phis
	var phis []*ssa.Phi
	for _, ins := range b.Instrs {
		if phi, ok := ins.(*ssa.Phi); ok {
			phis = append(phis, phi)
			act.entVals[phi] = ex.phiValue(f, b, phi, true)
		}
	}
	// invariants hold on entry (checked in the pre-loop memory state)
	act.invs = ex.P.loopInvs[key]
	getEnt := func(p *ssa.Phi) Value { return act.entVals[p] }
	act.cands = ex.loopCandidates(f, act, phis)
	for _, cd := range act.cands {
		ck := key + "|" + cd.name
		if ex.cfg.disabled[ck] {
			continue
		}
		g := Implies(entry, cd.eval(getEnt))
		o := &Obligation{Name: "cand-entry:" + ck, Class: "cand", Fn: ex.curFn(), Goal: g, NHyps: len(ex.hyps), Optional: true, CandKey: ck}
		if g.IsTrue() {
			o.Status, o.Solver = "discharged", "syntactic"
		}
		ex.obls = append(ex.obls, o)
	}
	for _, inv := range act.invs {
		ex.checkInv(f, act, inv, "inv-entry", entry, getEnt)
	}
	// new iteration counter
	c := Fresh("ctr."+key, SInt, act.water.lo, nil)
	ex.assumeGlobal(Ge(c, act.water))
	ex.ctrBase, ex.ctrOff = c, 0
	act.ctr = c
	// havoc memory written by the loop
	var kinds []string
	for k := range ex.cfg.modKinds[key] {
		kinds = append(kinds, k)
	}
	sort.Strings(kinds)
	for _, kn := range kinds {
		k := ex.mem.kinds[kn]
		if k == nil {
			continue
		}
		var water *Term
		if !ex.cfg.fullHavoc[key+"|"+kn] {
			water = act.water
			if ex.cfg.fnHavoc[key+"|"+kn] && f.entryCtr != nil {
				water = f.entryCtr
			}
		}
		ex.mem.Havoc(k, entry, water, c)
	}
	// havoc loop-carried values
	for _, phi := range phis {
		var hv Value
		nm := phi.Comment
		if nm == "" {
			nm = phi.Name()
		}
		if e, ok := act.entVals[phi].(SliceV); ok && !ex.cfg.disabled[key+"|"+nm+":suffix-of-init"] {
			// constructive form of the suffix invariant: the slice is the entry slice
			// with d elements consumed (keeps the array syntactically known)
			d := Fresh("lp."+nm+".consumed", SInt, bi(0), pow48)
			ex.assumeGlobal(Le(d, e.Len))
			hv = SliceV{Arr: e.Arr, Off: Add(e.Off, d), Len: Sub(e.Len, d), Cap: Sub(e.Cap, d), Elem: e.Elem}
		} else {
			hv = ex.freshValue(phi.Type(), "lp."+phi.Name()+"."+phi.Comment, true)
		}
		act.headVals[phi] = hv
		f.vals[phi] = hv
	}
	getHead := func(p *ssa.Phi) Value { return act.headVals[p] }
	for _, cd := range act.cands {
		if !ex.cfg.disabled[key+"|"+cd.name] {
			ex.assume(entry, cd.eval(getHead))
		}
	}
	for _, inv := range act.invs {
		ex.assumeInv(f, act, inv, entry, getHead)
	}
	act.steps = ex.P.loopSteps[key]
	for _, st := range act.steps {
		act.stepHead = append(act.stepHead, ex.stepHeadArgs(f, act, st))
	}
	act.exits = ex.P.loopExits[key]
	for _, st := range act.exits {
		act.exitHead = append(act.exitHead, ex.stepHeadArgs(f, act, st))
	}
	act.variants = ex.variantCandidates(f, act, phis)
	act.varGoals = make([][]*Term, len(act.variants))
	act.varHead = nil
	for _, vc := range act.variants {
		if vc.atHead {
			act.varHead = append(act.varHead, vc.eval(getHead, f))
		} else {
			act.varHead = append(act.varHead, nil)
		}
	}
}

// backEdge is called when control reaches a back edge from block b to head h.
func (ex *Exec) backEdge(f *Frame, b, h *ssa.BasicBlock, cond *Term) {
	lp := f.info.loops[h]
	act := f.acts[lp]
	if act == nil || cond.IsFalse() {
		return
	}
	idx := -1
	for i, p := range h.Preds {
		if p == b {
			idx = i
		}
	}
	getNext := func(p *ssa.Phi) Value { return ex.val(f, p.Edges[idx]) }
	for _, cd := range act.cands {
		ck := act.key + "|" + cd.name
		if ex.cfg.disabled[ck] {
			continue
		}
		g := Implies(cond, cd.eval(getNext))
		o := &Obligation{Name: "cand-step:" + ck, Class: "cand", Fn: ex.curFn(), Goal: g, NHyps: len(ex.hyps), Optional: true, CandKey: ck}
		if g.IsTrue() {
			o.Status, o.Solver = "discharged", "syntactic"
		}
		ex.obls = append(ex.obls, o)
	}
	for _, inv := range act.invs {
		ex.checkInv(f, act, inv, "inv-step", cond, getNext)
	}
	for i, st := range act.steps {
		ex.checkStep(f, act, st, act.stepHead[i], cond, getNext)
	}
	for i, vc := range act.variants {
		vh := act.varHead[i]
		if vh == nil {
			vh = vc.eval(func(p *ssa.Phi) Value { return act.headVals[p] }, f)
		}
		act.varGoals[i] = append(act.varGoals[i], Implies(cond, And(Lt(vc.evalNext(ex, f, getNext), vh), Ge(vh, Int(0)))))
	}
	act.backsSeen++
	if act.backsSeen == len(lp.backs) {
		ex.finishLoop(f, act)
	}
}

func (ex *Exec) finishLoop(f *Frame, act *loopAct) {
	// termination: some candidate variant decreases on every back edge
	var alts []*Term
	var names []string
	for i, vc := range act.variants {
		alts = append(alts, And(act.varGoals[i]...))
		names = append(names, vc.name)
	}
	if ex.cfg.noVariant[act.key] || loopHasMapNext(act.info) {
		return // (range over a map terminates by the language definition)
	}
	o := &Obligation{Name: act.key + "#variant", Class: "variant", Fn: fnName(f.fn), NHyps: len(ex.hyps), Alts: alts}
	o.Raw = "candidates: " + strings.Join(names, ", ")
	if len(alts) == 0 {
		o.Goal = False()
	}
	ex.obls = append(ex.obls, o)
}

// comparedBounds lists loop-invariant values that p (or p plus a constant) is
// compared with inside the loop.
func comparedBounds(p *ssa.Phi, li *loopInfo) []ssa.Value {
	derived := map[ssa.Value]bool{p: true}
	for b := range li.body {
		for _, ins := range b.Instrs {
			if bo, ok := ins.(*ssa.BinOp); ok && (bo.Op == token.ADD || bo.Op == token.SUB) {
				if _, isC := bo.Y.(*ssa.Const); isC && bo.X == ssa.Value(p) {
					derived[bo] = true
				}
			}
		}
	}
	var out []ssa.Value
	seen := map[ssa.Value]bool{}
	for b := range li.body {
		for _, ins := range b.Instrs {
			bo, ok := ins.(*ssa.BinOp)
			if !ok {
				continue
			}
			switch bo.Op {
			case token.LSS, token.LEQ, token.GTR, token.GEQ, token.NEQ:
			default:
				continue
			}
			var other ssa.Value
			if derived[bo.X] {
				other = bo.Y
			} else if derived[bo.Y] {
				other = bo.X
			} else {
				continue
			}
			if _, ok := intKindOf(other.Type()); !ok {
				continue
			}
			if !loopInvariant(other, li, 0) || seen[other] {
				continue
			}
			seen[other] = true
			out = append(out, other)
		}
	}
	return out
}

// loopCandidates proposes invariant conjuncts from templates (Houdini).
func (ex *Exec) loopCandidates(f *Frame, act *loopAct, phis []*ssa.Phi) []loopCand {
	var out []loopCand
	for _, phi := range phis {
		p := phi
		ent := act.entVals[p]
		nm := p.Comment
		if nm == "" {
			nm = p.Name()
		}
		switch e := ent.(type) {
		case *Term:
			if e.sort != SInt {
				continue
			}
			if _, ok := intKindOf(p.Type()); !ok {
				continue
			}
			out = append(out, loopCand{nm + ">=init", func(get func(*ssa.Phi) Value) *Term { return Ge(get(p).(*Term), e) }})
			out = append(out, loopCand{nm + "<=init", func(get func(*ssa.Phi) Value) *Term { return Le(get(p).(*Term), e) }})
			for _, ov := range comparedBounds(p, act.info) {
				o := ov
				if ex.pureVal(f, o) == nil {
					continue
				}
				out = append(out, loopCand{nm + "<" + o.Name(), func(get func(*ssa.Phi) Value) *Term { return Lt(get(p).(*Term), ex.pureVal(f, o)) }})
				out = append(out, loopCand{nm + "<=" + o.Name(), func(get func(*ssa.Phi) Value) *Term { return Le(get(p).(*Term), ex.pureVal(f, o)) }})
			}
			// a pointer assigned in the loop is non-nil once the counter has moved
			for _, q := range phis {
				pq := q
				if _, isPtr := pq.Type().Underlying().(*types.Pointer); !isPtr {
					continue
				}
				qn := pq.Comment
				out = append(out, loopCand{qn + "!=nil-after-first:" + nm, func(get func(*ssa.Phi) Value) *Term {
					return Or(Eq(get(p).(*Term), e), Ne(ex.ptr(get(pq)).Ref, Int(0)))
				}})
			}
		case SliceV:
			water, ctr := act.water, act.ctr
			out = append(out, loopCand{nm + ":suffix-of-init", func(get func(*ssa.Phi) Value) *Term {
				s := get(p).(SliceV)
				return And(Eq(s.Arr, e.Arr), Eq(Add(s.Off, s.Len), Add(e.Off, e.Len)), Ge(s.Off, e.Off), Eq(Add(s.Off, s.Cap), Add(e.Off, e.Cap)))
			}})
			out = append(out, loopCand{nm + ":fresh-or-init", func(get func(*ssa.Phi) Value) *Term {
				s := get(p).(SliceV)
				_ = ctr
				return Or(Gt(s.Arr, water), And(Eq(s.Arr, e.Arr), Eq(s.Off, e.Off), Eq(s.Len, e.Len), Eq(s.Cap, e.Cap)))
			}})
			out = append(out, loopCand{nm + ":len>=init", func(get func(*ssa.Phi) Value) *Term {
				return Ge(get(p).(SliceV).Len, e.Len)
			}})
			out = append(out, loopCand{nm + ":array-fresh-or-init", func(get func(*ssa.Phi) Value) *Term {
				s := get(p).(SliceV)
				return Or(Gt(s.Arr, water), Eq(s.Arr, e.Arr))
			}})
			if f.entryCtr != nil {
				own := f.entryCtr
				out = append(out, loopCand{nm + ":array-allocated-by-this-call", func(get func(*ssa.Phi) Value) *Term {
					s := get(p).(SliceV)
					return Or(Eq(s.Arr, Int(0)), Gt(s.Arr, own))
				}})
			}
		}
	}
	return out
}

// pureVal evaluates a loop-invariant integer expression without relying on the
// instruction having been executed (len/cap/convert/arithmetic of available values).
func (ex *Exec) pureVal(f *Frame, v ssa.Value) *Term {
	switch x := v.(type) {
	case *ssa.Const:
		t, _ := ex.constVal(x).(*Term)
		return t
	}
	if r, ok := f.vals[v]; ok {
		t, _ := r.(*Term)
		return t
	}
	switch x := v.(type) {
	case *ssa.Call:
		if b, ok := x.Call.Value.(*ssa.Builtin); ok && (b.Name() == "len" || b.Name() == "cap") {
			if a, ok := f.vals[x.Call.Args[0]]; ok {
				switch s := a.(type) {
				case SliceV:
					if b.Name() == "len" {
						return s.Len
					}
					return s.Cap
				case StrV:
					return s.Len
				}
			}
		}
	case *ssa.Convert:
		if t := ex.pureVal(f, x.X); t != nil {
			if ik, ok := intKindOf(x.Type()); ok {
				return Wrap(t, ik)
			}
		}
	}
	return nil
}

// loopInvariant: v has the same value in every iteration (defined outside the loop,
// or computed by pure operations from such values).
func loopInvariant(v ssa.Value, li *loopInfo, depth int) bool {
	if depth > 4 {
		return false
	}
	switch x := v.(type) {
	case *ssa.Const, *ssa.Parameter, *ssa.Global, *ssa.FreeVar:
		return true
	case *ssa.Phi:
		return !li.body[x.Block()]
	case ssa.Instruction:
		if !li.body[x.Block()] {
			return true
		}
		switch y := x.(type) {
		case *ssa.Call:
			if b, ok := y.Call.Value.(*ssa.Builtin); ok && (b.Name() == "len" || b.Name() == "cap") {
				return loopInvariant(y.Call.Args[0], li, depth+1)
			}
		case *ssa.Convert:
			return loopInvariant(y.X, li, depth+1)
		case *ssa.BinOp:
			return loopInvariant(y.X, li, depth+1) && loopInvariant(y.Y, li, depth+1)
		}
	}
	return false
}

func (vc variantCand) evalNext(ex *Exec, f *Frame, get func(*ssa.Phi) Value) *Term {
	return vc.eval(get, f)
}

func (ex *Exec) variantCandidates(f *Frame, act *loopAct, phis []*ssa.Phi) []variantCand {
	var out []variantCand
	for _, phi := range phis {
		p := phi
		nm := p.Comment
		if nm == "" {
			nm = p.Name()
		}
		switch act.headVals[p].(type) {
		case SliceV:
			out = append(out, variantCand{"len(" + nm + ")", func(get func(*ssa.Phi) Value, _ *Frame) *Term { return get(p).(SliceV).Len }, false})
			// X - len(p) for loop-invariant X that len(p) is compared with
			for b := range act.info.body {
				for _, ins := range b.Instrs {
					bo, ok := ins.(*ssa.BinOp)
					if !ok {
						continue
					}
					isLen := func(v ssa.Value) bool {
						c, ok := v.(*ssa.Call)
						if !ok {
							return false
						}
						bi, ok := c.Call.Value.(*ssa.Builtin)
						return ok && bi.Name() == "len" && c.Call.Args[0] == ssa.Value(p)
					}
					var other ssa.Value
					if isLen(bo.X) {
						other = bo.Y
					} else if isLen(bo.Y) {
						other = bo.X
					} else {
						continue
					}
					if _, ok := intKindOf(other.Type()); !ok || !loopInvariant(other, act.info, 0) {
						continue
					}
					ov := other
					out = append(out, variantCand{ov.Name() + "-len(" + nm + ")", func(get func(*ssa.Phi) Value, fr *Frame) *Term {
						x := ex.pureVal(fr, ov)
						if x == nil {
							return Int(0)
						}
						return Sub(x, get(p).(SliceV).Len)
					}, false})
				}
			}
		case *Term:
			if _, ok := intKindOf(p.Type()); !ok {
				continue
			}
			out = append(out, variantCand{nm, func(get func(*ssa.Phi) Value, _ *Frame) *Term { return get(p).(*Term) }, false})
			// bounds it (or it plus a constant) is compared with inside the loop
			for _, other := range comparedBounds(p, act.info) {
				ov := other
				out = append(out, variantCand{ov.Name() + "-" + nm, func(get func(*ssa.Phi) Value, fr *Frame) *Term {
					return Sub(ex.val(fr, ov).(*Term), get(p).(*Term))
				}, false})
			}
		}
	}
	for i, h := range ex.varHooks {
		hk := h
		out = append(out, variantCand{fmt.Sprintf("reader-remaining-%d", i), func(func(*ssa.Phi) Value, *Frame) *Term { return hk() }, true})
	}
	return out
}

// ---------- instructions ----------

func (ex *Exec) exprText(pos token.Pos, kind string) string {
	return ex.P.exprText(pos, kind)
}

func (ex *Exec) execInstr(f *Frame, b *ssa.BasicBlock, ins ssa.Instruction) {
	reach := f.cur
	ex.cur = reach
	switch x := ins.(type) {
	case *ssa.DebugRef:
	case *ssa.Alloc:
		t := x.Type().(*types.Pointer).Elem()
		f.vals[x] = ex.allocObj(t)
	case *ssa.BinOp:
		f.vals[x] = ex.binop(f, x)
	case *ssa.UnOp:
		f.vals[x] = ex.unop(f, x)
	case *ssa.Convert:
		f.vals[x] = ex.convert(f, x)
	case *ssa.ChangeType:
		f.vals[x] = ex.val(f, x.X)
	case *ssa.ChangeInterface:
		f.vals[x] = ex.val(f, x.X)
	case *ssa.MakeInterface:
		v := ex.val(f, x.X)
		f.vals[x] = IfaceV{Tag: Int(int64(ex.P.typeID(x.X.Type()))), Val: v}
	case *ssa.TypeAssert:
		f.vals[x] = ex.typeAssert(f, x)
	case *ssa.Extract:
		f.vals[x] = ex.val(f, x.Tuple).(TupleV)[x.Index]
	case *ssa.Field:
		f.vals[x] = ex.val(f, x.X).(StructV).Fields[x.Field]
	case *ssa.FieldAddr:
		p := ex.ptr(ex.val(f, x.X))
		ex.oblige("nil", ex.exprText(x.Pos(), "sel"), reach, Ne(p.Ref, Int(0)))
		st := p.T.Underlying().(*types.Struct)
		fld := st.Field(x.Field)
		f.vals[x] = PtrV{Base: ex.ptrBase(p) + "." + fld.Name(), Ref: p.Ref, Idx: p.Idx, T: fld.Type()}
	case *ssa.IndexAddr:
		f.vals[x] = ex.indexAddr(f, x)
	case *ssa.Index:
		f.vals[x] = ex.index(f, x)
	case *ssa.Slice:
		f.vals[x] = ex.slice(f, x)
	case *ssa.Store:
		p := ex.ptr(ex.val(f, x.Addr))
		ex.storePtr(p, reach, ex.val(f, x.Val))
	case *ssa.MakeSlice:
		f.vals[x] = ex.makeSlice(f, x)
	case *ssa.MakeMap:
		f.vals[x] = ex.newObj()
	case *ssa.MapUpdate:
		ex.mapUpdate(f, x)
	case *ssa.Lookup:
		f.vals[x] = ex.lookup(f, x)
	case *ssa.Call:
		v, ok := ex.doCall(f, x)
		f.cur = And(f.cur, ok)
		ex.cur = f.cur
		if x.Type() != nil {
			f.vals[x] = v
		}
	case *ssa.Phi:
		panic("phi")
	case *ssa.If:
		c := ex.val(f, x.Cond).(*Term)
		ex.setEdge(f, b, b.Succs[0], And(f.cur, c))
		ex.setEdge(f, b, b.Succs[1], And(f.cur, Not(c)))
	case *ssa.Jump:
		ex.setEdge(f, b, b.Succs[0], f.cur)
	case *ssa.Return:
		var v Value
		switch len(x.Results) {
		case 0:
		case 1:
			v = ex.val(f, x.Results[0])
		default:
			tv := make(TupleV, len(x.Results))
			for i, r := range x.Results {
				tv[i] = ex.val(f, r)
			}
			v = tv
		}
		f.rets = append(f.rets, retSite{f.cur, v})
	case *ssa.Panic:
		ex.oblige("panic", ex.exprText(x.Pos(), "call"), reach, False())
		f.cur = False()
	case *ssa.MakeClosure:
		fn := x.Fn.(*ssa.Function)
		tag := Int(int64(ex.P.funcID(fn)))
		var bs []Value
		for _, bnd := range x.Bindings {
			bs = append(bs, ex.val(f, bnd))
		}
		ex.ghost[fmt.Sprintf("closure:%d", tag.id)] = bs
		f.vals[x] = FuncV{Tag: tag}
	case *ssa.Range:
		if _, ok := x.X.Type().Underlying().(*types.Map); !ok {
			f.vals[x] = ex.val(f, x.X)
			ex.unsupported("range over string in " + fnName(f.fn))
			break
		}
		// map iteration: an iterator object with a ghost set of visited keys
		it := ex.newObj()
		ex.gwrite("mapiter.map", f.cur, it, ex.val(f, x.X).(*Term))
		f.vals[x] = it
		ex.rangeMapType[it.id] = x.X.Type().Underlying().(*types.Map)
	case *ssa.Next:
		itv, _ := ex.val(f, x.Iter).(*Term)
		mt := ex.rangeMapType[itvID(itv)]
		if x.IsString || mt == nil {
			ex.unsupported("next (string iteration) in " + fnName(f.fn))
			tt := x.Type().(*types.Tuple)
			tv := TupleV{Fresh("next.ok", SBool, nil, nil)}
			for i := 1; i < tt.Len(); i++ {
				if t := tt.At(i).Type(); t != nil && t.String() != "invalid type" {
					tv = append(tv, ex.freshValue(t, "next", true))
				} else {
					tv = append(tv, nil)
				}
			}
			f.vals[x] = tv
			break
		}
		f.vals[x] = ex.mapNext(f, x, itv, mt)
	default:
		ex.unsupported(fmt.Sprintf("instruction %T in %s", ins, fnName(f.fn)))
		if v, ok := ins.(ssa.Value); ok {
			f.vals[v] = ex.freshValue(v.Type(), "unsup", true)
		}
	}
}

func (ex *Exec) setEdge(f *Frame, from, to *ssa.BasicBlock, c *Term) {
	k := [2]int{from.Index, to.Index}
	if f.info.back[k] {
		if u := f.unr[f.info.loops[to]]; u != nil {
			ex.unrollBack(f, from, to, u, c)
			return
		}
		ex.backEdge(f, from, to, c)
		return
	}
	// an edge that leaves a cut loop from inside its body: exit predicates
	for _, lp := range f.info.inLp[from] {
		if act := f.acts[lp]; act != nil && len(act.exits) > 0 && from != lp.head && !lp.body[to] && !c.IsFalse() {
			getHead := func(p *ssa.Phi) Value { return act.headVals[p] }
			for i, st := range act.exits {
				ex.checkStep(f, act, st, act.exitHead[i], c, getHead)
			}
		}
	}
	if old, ok := f.edge[k]; ok {
		c = Or(old, c)
	}
	f.edge[k] = c
}

func (ex *Exec) allocBase(t types.Type) string {
	switch u := t.Underlying().(type) {
	case *types.Struct:
		return structBase(t)
	case *types.Array:
		return elemBase(u.Elem())
	}
	return "cell:" + typeKey(t)
}

func (ex *Exec) allocObj(t types.Type) PtrV {
	ref := ex.newObj()
	return PtrV{Ref: ref, T: t}
}

func (ex *Exec) ptr(v Value) PtrV {
	switch p := v.(type) {
	case PtrV:
		return p
	case *Term:
		return PtrV{Ref: p}
	}
	panic(fmt.Sprintf("ptr: %T", v))
}

func (ex *Exec) ptrBase(p PtrV) string {
	if p.Base != "" {
		return p.Base
	}
	return ex.allocBase(p.T)
}

func (ex *Exec) idx(p PtrV) *Term {
	if p.Idx == nil {
		return Int(0)
	}
	return p.Idx
}

func (ex *Exec) loadPtr(p PtrV) Value {
	if _, ok := p.T.Underlying().(*types.Array); ok {
		return p.Ref // array value = its object
	}
	return ex.loadAt(ex.ptrBase(p), p.Ref, ex.idx(p), p.T, -1)
}

func (ex *Exec) storePtr(p PtrV, guard *Term, v Value) {
	ex.storeAt(ex.ptrBase(p), guard, p.Ref, ex.idx(p), p.T, v)
}

func (ex *Exec) unop(f *Frame, x *ssa.UnOp) Value {
	v := ex.val(f, x.X)
	switch x.Op {
	case token.MUL:
		p := ex.ptr(v)
		if _, isG := x.X.(*ssa.Global); !isG {
			if p.Base == "" || strings.HasPrefix(p.Base, "cell:") && p.Ref.lo == nil {
				ex.oblige("nil", "*"+x.X.Name(), f.cur, Ne(p.Ref, Int(0)))
			}
		}
		return ex.loadPtr(p)
	case token.NOT:
		return Not(v.(*Term))
	case token.SUB:
		ik, _ := intKindOf(x.Type())
		return Wrap(Neg(v.(*Term)), ik)
	case token.XOR:
		ik, _ := intKindOf(x.Type())
		if ik.signed {
			return Sub(Int(-1), v.(*Term))
		}
		return Sub(IntB(ik.hi()), v.(*Term))
	}
	ex.unsupported("unop " + x.Op.String())
	return ex.freshValue(x.Type(), "unop", true)
}

func (ex *Exec) convert(f *Frame, x *ssa.Convert) Value {
	v := ex.val(f, x.X)
	from, to := x.X.Type(), x.Type()
	if ik, ok := intKindOf(to); ok {
		if _, ok2 := intKindOf(from); ok2 {
			return Wrap(v.(*Term), ik)
		}
	}
	if isString(from) {
		if sl, ok := to.Underlying().(*types.Slice); ok {
			// []byte(s): fresh copy
			s := v.(StrV)
			ref := ex.newObj()
			k := ex.byteKind()
			ex.mem.Copy(k, f.cur, ref, Int(0), s.Len, s.Arr, s.Off)
			arr := Ite(Eq(s.Len, Int(0)), ref, ref) // Go returns non-nil empty slice for "" too
			return SliceV{Arr: arr, Off: Int(0), Len: s.Len, Cap: s.Len, Elem: sl.Elem()}
		}
		if isString(to) {
			return v
		}
	}
	if isString(to) {
		if _, ok := from.Underlying().(*types.Slice); ok {
			s := v.(SliceV)
			ref := ex.newObj()
			ex.mem.Copy(ex.byteKind(), f.cur, ref, Int(0), s.Len, s.Arr, s.Off)
			return StrV{Arr: ref, Off: Int(0), Len: s.Len}
		}
	}
	ex.unsupported("convert " + from.String() + " -> " + to.String())
	return ex.freshValue(to, "conv", true)
}

func (ex *Exec) byteKind() *kindInfo {
	return ex.mem.kind("[]byte", SInt, bi(0), bi(255), false)
}

func (ex *Exec) typeAssert(f *Frame, x *ssa.TypeAssert) Value {
	iv := ex.val(f, x.X).(IfaceV)
	if _, isIface := x.AssertedType.Underlying().(*types.Interface); isIface {
		// interface-to-interface: succeeds for non-nil values whose type implements it
		ok := ex.implementsCond(iv, x.AssertedType)
		if x.CommaOk {
			return TupleV{IfaceV{Tag: Ite(ok, iv.Tag, Int(0)), Val: iv.Val}, ok}
		}
		ex.oblige("assert-type", ex.exprText(x.Pos(), "assert"), f.cur, ok)
		return iv
	}
	id := Int(int64(ex.P.typeID(x.AssertedType)))
	ok := Eq(iv.Tag, id)
	val := ex.unbox(iv, x.AssertedType)
	if x.CommaOk {
		return TupleV{ex.iteValue(ok, x.AssertedType, val, ex.zeroValue(x.AssertedType)), ok}
	}
	ex.oblige("assert-type", ex.exprText(x.Pos(), "assert"), f.cur, ok)
	return val
}

func (ex *Exec) implementsCond(iv IfaceV, it types.Type) *Term {
	var conds []*Term
	for _, t := range ex.P.implementers(it) {
		conds = append(conds, Eq(iv.Tag, Int(int64(ex.P.typeID(t)))))
	}
	return Or(conds...)
}

// unbox recovers the payload of an interface as a value of type t.
func (ex *Exec) unbox(iv IfaceV, t types.Type) Value {
	switch d := iv.Val.(type) {
	case nil:
		return ex.zeroValue(t)
	case *Term:
		if v, ok := ex.boxes[d.id]; ok {
			return v
		}
		if pt, ok := t.Underlying().(*types.Pointer); ok {
			return PtrV{Ref: d, T: pt.Elem()}
		}
		if _, ok := intKindOf(t); ok {
			return d
		}
		if isBool(t) {
			return Eq(d, Int(1))
		}
		ex.unsupported("unbox to " + t.String())
		return ex.freshValue(t, "unbox", true)
	default:
		return d
	}
}

func (ex *Exec) binop(f *Frame, x *ssa.BinOp) Value {
	a, b := ex.val(f, x.X), ex.val(f, x.Y)
	t := x.X.Type()
	switch x.Op {
	case token.EQL, token.NEQ:
		e := ex.equal(t, a, b, x.Y.Type())
		if x.Op == token.NEQ {
			return Not(e)
		}
		return e
	}
	if isString(t) && x.Op == token.ADD {
		return ex.strConcat(f, a.(StrV), b.(StrV))
	}
	at, ok1 := a.(*Term)
	bt, ok2 := b.(*Term)
	if !ok1 || !ok2 {
		ex.unsupported("binop on " + t.String())
		return ex.freshValue(x.Type(), "binop", true)
	}
	if isBool(t) {
		switch x.Op {
		case token.AND, token.LAND:
			return And(at, bt)
		case token.OR, token.LOR:
			return Or(at, bt)
		}
	}
	switch x.Op {
	case token.LSS:
		return Lt(at, bt)
	case token.LEQ:
		return Le(at, bt)
	case token.GTR:
		return Gt(at, bt)
	case token.GEQ:
		return Ge(at, bt)
	}
	ik, ok := intKindOf(x.Type())
	if !ok {
		ex.unsupported("binop result " + x.Type().String())
		return ex.freshValue(x.Type(), "binop", true)
	}
	switch x.Op {
	case token.ADD:
		return Wrap(Add(at, bt), ik)
	case token.SUB:
		return Wrap(Sub(at, bt), ik)
	case token.MUL:
		return Wrap(Mul(at, bt), ik)
	case token.QUO:
		ex.oblige("div", ex.exprText(x.Pos(), "bin"), f.cur, Ne(bt, Int(0)))
		return Wrap(GoDiv(at, bt), ik)
	case token.REM:
		ex.oblige("div", ex.exprText(x.Pos(), "bin"), f.cur, Ne(bt, Int(0)))
		return GoRem(at, bt)
	case token.AND, token.OR, token.XOR, token.AND_NOT:
		ua, ub := at, bt
		if ik.signed {
			if !nonneg(at) || !nonneg(bt) {
				ex.unsupported("bit op on possibly negative value in " + fnName(f.fn))
				return ex.freshValue(x.Type(), "bitop", true)
			}
		}
		switch x.Op {
		case token.AND:
			return BitAnd(ua, ub, ik.bits)
		case token.OR:
			return BitOr(ua, ub, ik.bits)
		case token.XOR:
			return BitXor(ua, ub, ik.bits)
		case token.AND_NOT:
			return Sub(ua, BitAnd(ua, ub, ik.bits))
		}
	case token.SHL:
		if c, ok := bt.ConstInt(); ok {
			if uint(c) >= ik.bits {
				return Int(0)
			}
			return Wrap(MulC(pow2(uint(c)), at), ik)
		}
	case token.SHR:
		if c, ok := bt.ConstInt(); ok && (nonneg(at) || !ik.signed) {
			if uint(c) >= ik.bits {
				return Int(0)
			}
			return EDivC(at, pow2(uint(c)))
		}
	}
	ex.unsupported("binop " + x.Op.String() + " in " + fnName(f.fn))
	return ex.freshValue(x.Type(), "binop", true)
}

func (ex *Exec) equal(t types.Type, a, b Value, tb types.Type) *Term {
	switch av := a.(type) {
	case *Term:
		if bv, ok := b.(*Term); ok {
			return Eq(av, bv)
		}
		if pb, ok := b.(PtrV); ok {
			return Eq(av, pb.Ref)
		}
	case PtrV:
		switch bv := b.(type) {
		case PtrV:
			if ex.ptrBaseLoose(av) != ex.ptrBaseLoose(bv) && av.Ref != bv.Ref {
				// pointers into different kinds of storage
				return And(Eq(av.Ref, Int(0)), Eq(bv.Ref, Int(0)))
			}
			return And(Eq(av.Ref, bv.Ref), Eq(ex.idx(av), ex.idx(bv)))
		case *Term:
			return Eq(av.Ref, bv)
		}
	case IfaceV:
		bv := b.(IfaceV)
		if bv.Tag.IsConst() && bv.Tag.k.Sign() == 0 {
			return Eq(av.Tag, Int(0))
		}
		if av.Tag.IsConst() && av.Tag.k.Sign() == 0 {
			return Eq(bv.Tag, Int(0))
		}
		return And(Eq(av.Tag, bv.Tag), Eq(ex.boxData(av), ex.boxData(bv)))
	case SliceV: // only comparison with nil is legal
		return Eq(av.Arr, Int(0))
	case StrV:
		return ex.strEq(av, b.(StrV))
	case FuncV:
		return Eq(av.Tag, b.(FuncV).Tag)
	case StructV:
		bv := b.(StructV)
		st := t.Underlying().(*types.Struct)
		var cs []*Term
		for i := range av.Fields {
			cs = append(cs, ex.equal(st.Field(i).Type(), av.Fields[i], bv.Fields[i], st.Field(i).Type()))
		}
		return And(cs...)
	}
	ex.unsupported(fmt.Sprintf("equality on %T", a))
	return Fresh("eq", SBool, nil, nil)
}

func (ex *Exec) ptrBaseLoose(p PtrV) string {
	if p.Base != "" {
		return p.Base
	}
	if p.T == nil {
		return ""
	}
	return ex.allocBase(p.T)
}

func (ex *Exec) strEq(a, b StrV) *Term {
	if a.Lit != nil && b.Lit != nil {
		return Bool(*a.Lit == *b.Lit)
	}
	if a.Lit == nil && b.Lit != nil {
		a, b = b, a
	}
	if a.Lit != nil {
		// content comparison against a literal: finite
		cs := []*Term{Eq(b.Len, Int(int64(len(*a.Lit))))}
		if len(*a.Lit) <= 64 {
			k := ex.byteKind()
			for i := 0; i < len(*a.Lit); i++ {
				cs = append(cs, Eq(ex.mem.Read(k, b.Arr, Add(b.Off, Int(int64(i))), -1), Int(int64((*a.Lit)[i]))))
			}
			return And(cs...)
		}
	}
	if a.Arr == b.Arr && a.Off == b.Off && a.Len == b.Len {
		return True()
	}
	ex.unsupported("string equality between two symbolic strings")
	return Fresh("streq", SBool, nil, nil)
}

func (ex *Exec) strConcat(f *Frame, a, b StrV) StrV {
	if a.Lit != nil && b.Lit != nil {
		return ex.strLit(*a.Lit + *b.Lit)
	}
	ref := ex.newObj()
	k := ex.byteKind()
	ex.copyStr(k, f.cur, ref, Int(0), a)
	ex.copyStr(k, f.cur, ref, a.Len, b)
	return StrV{Arr: ref, Off: Int(0), Len: Add(a.Len, b.Len)}
}

func (ex *Exec) copyStr(k *kindInfo, guard, dst, dstOff *Term, s StrV) {
	ex.materializeLit(s)
	ex.mem.Copy(k, guard, dst, dstOff, s.Len, s.Arr, s.Off)
}

// materializeLit makes sure a literal's bytes are readable through the log.
func (ex *Exec) materializeLit(s StrV) {
	if s.Lit == nil {
		return
	}
	key := "lit:" + *s.Lit
	if _, ok := ex.ghost[key]; ok {
		return
	}
	ex.ghost[key] = true
	k := ex.byteKind()
	// literal entries go to the front of time: they are immutable and refs are unique
	k.log = append([]MemEntry{{typ: eLit, guard: True(), ref: s.Arr, lit: *s.Lit}}, k.log...)
	// shift copy snapshots
	for i := range k.log {
		if k.log[i].typ == eCopy {
			k.log[i].srcUpto++
		}
	}
	ex.mem.cache = map[string]*Term{}
}

func (ex *Exec) isInputArr(arr *Term) bool { return ex.inputArr[arr.id] }

func (ex *Exec) indexAddr(f *Frame, x *ssa.IndexAddr) Value {
	base := ex.val(f, x.X)
	i := ex.val(f, x.Index).(*Term)
	what := ex.exprText(x.Pos(), "index")
	switch s := base.(type) {
	case SliceV:
		ex.oblige("bounds", what, f.cur, And(Le(Int(0), i), Lt(i, s.Len)))
		return PtrV{Base: elemBase(s.Elem), Ref: s.Arr, Idx: Add(s.Off, i), T: s.Elem}
	case PtrV: // pointer to array
		at := s.T.Underlying().(*types.Array)
		ex.oblige("bounds", what, f.cur, And(Le(Int(0), i), Lt(i, Int(at.Len()))))
		off := Int(0)
		if s.Idx != nil {
			off = s.Idx
		}
		return PtrV{Base: elemBase(at.Elem()), Ref: s.Ref, Idx: Add(off, i), T: at.Elem()}
	}
	ex.unsupported(fmt.Sprintf("indexaddr on %T", base))
	return ex.freshValue(x.Type(), "ia", true)
}

func (ex *Exec) index(f *Frame, x *ssa.Index) Value {
	base := ex.val(f, x.X)
	i := ex.val(f, x.Index).(*Term)
	if s, ok := base.(StrV); ok {
		ex.oblige("bounds", ex.exprText(x.Pos(), "index"), f.cur, And(Le(Int(0), i), Lt(i, s.Len)))
		ex.materializeLit(s)
		return ex.mem.Read(ex.byteKind(), s.Arr, Add(s.Off, i), -1)
	}
	ex.unsupported(fmt.Sprintf("index on %T", base))
	return ex.freshValue(x.Type(), "idx", true)
}

func (ex *Exec) slice(f *Frame, x *ssa.Slice) Value {
	base := ex.val(f, x.X)
	what := ex.exprText(x.Pos(), "slice")
	var lo, hi, max *Term
	if x.Low != nil {
		lo = ex.val(f, x.Low).(*Term)
	} else {
		lo = Int(0)
	}
	switch s := base.(type) {
	case SliceV:
		if x.High != nil {
			hi = ex.val(f, x.High).(*Term)
		} else {
			hi = s.Len
		}
		limit := s.Cap
		strictWhy := ""
		if ex.cfg.strict && ex.isInputArr(s.Arr) {
			limit = s.Len
			strictWhy = "strict"
		}
		newCap := Sub(s.Cap, lo)
		conds := []*Term{Le(Int(0), lo), Le(lo, hi)}
		if x.Max != nil {
			max = ex.val(f, x.Max).(*Term)
			conds = append(conds, Le(hi, max), Le(max, limit))
			newCap = Sub(max, lo)
		} else {
			conds = append(conds, Le(hi, limit))
		}
		_ = strictWhy
		ex.oblige("bounds", what, f.cur, And(conds...))
		return SliceV{Arr: s.Arr, Off: Add(s.Off, lo), Len: Sub(hi, lo), Cap: newCap, Elem: s.Elem}
	case StrV:
		if x.High != nil {
			hi = ex.val(f, x.High).(*Term)
		} else {
			hi = s.Len
		}
		ex.oblige("bounds", what, f.cur, And(Le(Int(0), lo), Le(lo, hi), Le(hi, s.Len)))
		return StrV{Arr: s.Arr, Off: Add(s.Off, lo), Len: Sub(hi, lo)}
	case PtrV: // *array
		at := s.T.Underlying().(*types.Array)
		n := Int(at.Len())
		if x.High != nil {
			hi = ex.val(f, x.High).(*Term)
		} else {
			hi = n
		}
		ex.oblige("bounds", what, f.cur, And(Le(Int(0), lo), Le(lo, hi), Le(hi, n)))
		off := Int(0)
		if s.Idx != nil {
			off = s.Idx
		}
		return SliceV{Arr: s.Ref, Off: Add(off, lo), Len: Sub(hi, lo), Cap: Sub(n, lo), Elem: at.Elem()}
	}
	ex.unsupported(fmt.Sprintf("slice of %T", base))
	return ex.freshValue(x.Type(), "sl", true)
}

func (ex *Exec) makeSlice(f *Frame, x *ssa.MakeSlice) Value {
	n := ex.val(f, x.Len).(*Term)
	c := ex.val(f, x.Cap).(*Term)
	what := ex.exprText(x.Pos(), "call")
	ex.oblige("make-nonneg", what, f.cur, And(Le(Int(0), n), Le(n, c), Le(c, IntB(pow48))))
	ref := ex.newObj()
	return SliceV{Arr: ref, Off: Int(0), Len: n, Cap: c, Elem: x.Type().Underlying().(*types.Slice).Elem()}
}

// ---------- builtins ----------

func (ex *Exec) elemKinds(elem types.Type) []*kindInfo {
	var out []*kindInfo
	for _, c := range layout(elem) {
		out = append(out, ex.kindFor(elemBase(elem), c))
	}
	return out
}

// appendSlice models append(s, t...) exactly: in place when capacity suffices.
func (ex *Exec) appendSlice(reach *Term, s, t SliceV) SliceV {
	n := t.Len
	newLen := Add(s.Len, n)
	inplace := Le(newLen, s.Cap)
	none := Eq(n, Int(0))
	ref := ex.newObj()
	capNew := Fresh("cap", SInt, bi(0), pow48)
	ex.assumeGlobal(Ge(capNew, newLen))
	kinds := ex.elemKinds(s.Elem)
	// in place (never for a slice without spare capacity)
	gIn := And(reach, inplace, Not(none))
	if room := Sub(s.Cap, s.Len); room.IsConst() && room.k.Sign() <= 0 {
		gIn = False()
		inplace = none
	}
	gNew := And(reach, Not(inplace))
	for _, k := range kinds {
		srcUpto := len(k.log)
		_ = srcUpto
		ex.mem.Copy(k, gIn, s.Arr, Add(s.Off, s.Len), n, t.Arr, t.Off)
		ex.mem.Copy(k, gNew, ref, Int(0), s.Len, s.Arr, s.Off)
		ex.mem.Copy(k, gNew, ref, s.Len, n, t.Arr, t.Off)
	}
	return SliceV{
		Arr:  Ite(inplace, s.Arr, ref),
		Off:  Ite(inplace, s.Off, Int(0)),
		Len:  newLen,
		Cap:  Ite(inplace, s.Cap, capNew),
		Elem: s.Elem,
	}
}

func (ex *Exec) builtin(f *Frame, name string, call *ssa.Call, args []Value) Value {
	reach := f.cur
	switch name {
	case "len":
		switch s := args[0].(type) {
		case SliceV:
			return s.Len
		case StrV:
			return s.Len
		case *Term: // map
			// the number of entries of a map is not tracked: some non-negative number
			// (the library uses it only as a capacity hint)
			ex.usedModel("len(map): an unspecified non-negative number (only used as a capacity hint)")
			return Fresh("maplen", SInt, bi(0), bi(1<<31))
		}
	case "cap":
		if s, ok := args[0].(SliceV); ok {
			return s.Cap
		}
	case "append":
		s := args[0].(SliceV)
		switch t := args[1].(type) {
		case SliceV:
			return ex.appendSlice(reach, s, t)
		case StrV:
			ex.materializeLit(t)
			return ex.appendSlice(reach, s, SliceV{Arr: t.Arr, Off: t.Off, Len: t.Len, Cap: t.Len, Elem: s.Elem})
		}
	case "copy":
		d := args[0].(SliceV)
		var sArr, sOff, sLen *Term
		switch s := args[1].(type) {
		case SliceV:
			sArr, sOff, sLen = s.Arr, s.Off, s.Len
		case StrV:
			ex.materializeLit(s)
			sArr, sOff, sLen = s.Arr, s.Off, s.Len
		}
		n := Min(d.Len, sLen)
		for _, k := range ex.elemKinds(d.Elem) {
			ex.mem.Copy(k, reach, d.Arr, d.Off, n, sArr, sOff)
		}
		return n
	case "panic":
		ex.oblige("panic", ex.exprText(call.Pos(), "call"), reach, False())
		f.cur = False()
		return nil
	case "print", "println":
		return nil
	}
	ex.unsupported("builtin " + name)
	if call.Type() != nil {
		return ex.freshValue(call.Type(), name, true)
	}
	return nil
}

// ---------- maps ----------

func mapBase(t types.Type) string { return "map:" + typeKey(t) }

func (ex *Exec) mapKeyTerm(mt *types.Map, key Value) *Term {
	switch k := key.(type) {
	case *Term:
		return k
	case StrV:
		if k.Lit != nil {
			return Int(int64(ex.P.internStr(*k.Lit)))
		}
		// a choice among literals (ite-tree over literal objects): choose among their ids
		if t := ex.litChoiceKey(k.Arr, 0); t != nil {
			return t
		}
		// symbolic string: compare with every interned literal
		res := Int(-1)
		for _, lit := range ex.P.internedSorted() {
			l := ex.strLit(lit)
			res = Ite(ex.strEq(l, k), Int(int64(ex.P.internStr(lit))), res)
		}
		return res
	}
	ex.unsupported(fmt.Sprintf("map key %T", key))
	return Fresh("key", SInt, nil, nil)
}

// litChoiceKey maps an ite-tree whose leaves are literal string objects to the
// ite-tree of the literals' intern ids.
func (ex *Exec) litChoiceKey(arr *Term, depth int) *Term {
	if depth > 8 {
		return nil
	}
	if c, ok := arr.ConstInt(); ok {
		if lit, ok := ex.P.litByRef[c]; ok {
			return Int(int64(ex.P.internStr(lit)))
		}
		return nil
	}
	if arr.op != "ite" {
		return nil
	}
	a := ex.litChoiceKey(arr.args[1], depth+1)
	if a == nil {
		return nil
	}
	b := ex.litChoiceKey(arr.args[2], depth+1)
	if b == nil {
		return nil
	}
	return Ite(arr.args[0], a, b)
}

func (ex *Exec) mapUpdate(f *Frame, x *ssa.MapUpdate) {
	m := ex.val(f, x.Map).(*Term)
	mt := x.Map.Type().Underlying().(*types.Map)
	key := ex.mapKeyTerm(mt, ex.val(f, x.Key))
	ex.oblige("nil", "map-update:"+x.Map.Name(), f.cur, Ne(m, Int(0)))
	base := mapBase(mt)
	pk := ex.mem.kind(base+"#present", SBool, nil, nil, false)
	ex.mem.Store(pk, f.cur, m, key, True())
	ex.storeAt(base, f.cur, m, key, mt.Elem(), ex.val(f, x.Value))
}

func (ex *Exec) lookup(f *Frame, x *ssa.Lookup) Value {
	if s, ok := ex.val(f, x.X).(StrV); ok {
		i := ex.val(f, x.Index).(*Term)
		ex.oblige("bounds", ex.exprText(x.Pos(), "index"), f.cur, And(Le(Int(0), i), Lt(i, s.Len)))
		ex.materializeLit(s)
		return ex.mem.Read(ex.byteKind(), s.Arr, Add(s.Off, i), -1)
	}
	m := ex.val(f, x.X).(*Term)
	mt := x.X.Type().Underlying().(*types.Map)
	key := ex.mapKeyTerm(mt, ex.val(f, x.Index))
	base := mapBase(mt)
	pk := ex.mem.kind(base+"#present", SBool, nil, nil, false)
	present := And(Ne(m, Int(0)), ex.mem.Read(pk, m, key, -1))
	v := ex.loadAt(base, m, key, mt.Elem(), -1)
	v = ex.iteValue(present, mt.Elem(), v, ex.zeroValue(mt.Elem()))
	if x.CommaOk {
		return TupleV{v, present}
	}
	return v
}

// ---------- calls ----------

func (ex *Exec) doCall(f *Frame, call *ssa.Call) (Value, *Term) {
	cc := call.Common()
	var args []Value
	for _, a := range cc.Args {
		args = append(args, ex.val(f, a))
	}
	reach := f.cur
	if cc.IsInvoke() {
		recv := ex.val(f, cc.Value).(IfaceV)
		return ex.invoke(f, call, recv, cc.Method, args)
	}
	switch fn := cc.Value.(type) {
	case *ssa.Builtin:
		v := ex.builtin(f, fn.Name(), call, args)
		return v, f.cur
	case *ssa.Function:
		return ex.callStatic(f, call, fn, args, reach)
	case *ssa.MakeClosure:
		target := fn.Fn.(*ssa.Function)
		for _, bnd := range fn.Bindings {
			args = append(args, ex.val(f, bnd))
		}
		return ex.callStatic(f, call, target, args, reach)
	default:
		// dynamic call through a function value
		fv, ok := ex.val(f, cc.Value).(FuncV)
		if !ok {
			ex.unsupported("call through " + fmt.Sprintf("%T", ex.val(f, cc.Value)))
			return ex.freshValue(call.Type(), "dyn", true), reach
		}
		return ex.callFuncValue(f, call, fv, cc.Signature(), args, reach)
	}
}

func (ex *Exec) callFuncValue(f *Frame, call *ssa.Call, fv FuncV, sig *types.Signature, args []Value, reach *Term) (Value, *Term) {
	ex.oblige("nil", "call:"+ex.exprText(call.Pos(), "call"), reach, Ne(fv.Tag, Int(0)))
	if c, ok := fv.Tag.ConstInt(); ok {
		return ex.callStatic(f, call, ex.P.funcByID[c], args, reach)
	}
	cands := ex.P.funcsWithSig(sig)
	var res Value
	okAll := False()
	var tagOK []*Term
	first := true
	for _, fn := range cands {
		c := Eq(fv.Tag, Int(int64(ex.P.funcID(fn))))
		tagOK = append(tagOK, c)
		g := And(reach, c)
		if g.IsFalse() {
			continue
		}
		v, ok := ex.callStatic(f, call, fn, args, g)
		okAll = Or(okAll, ok)
		if call.Type() != nil && resultType(fn) != nil {
			if first {
				res = v
				first = false
			} else {
				res = ex.iteValue(c, resultType(fn), v, res)
			}
		}
	}
	// closed world: the tag names one of the address-taken functions of that signature
	ex.assume(reach, Or(tagOK...))
	return res, okAll
}

func (ex *Exec) callStatic(f *Frame, call *ssa.Call, fn *ssa.Function, args []Value, reach *Term) (Value, *Term) {
	name := fn.String()
	if h, ok := ex.P.intrinsics[fn.Name()]; ok && fn.Pkg != nil && ex.P.isRepoPkg(fn.Pkg.Pkg.Path()) {
		return h(ex, f, call, args, reach)
	}
	if h, ok := externs[name]; ok {
		return h(ex, f, call, args, reach)
	}
	if fn.Pkg != nil && ex.P.isRepoPkg(fn.Pkg.Pkg.Path()) || fn.Parent() != nil {
		if m := ex.topMode(); m != nil && m.target == fnName(fn) {
			if m.use {
				return ex.havocCall(fn, args, reach)
			}
			// the contract of fn is being verified: its real body
			ex.modes = append(ex.modes, &contractMode{})
			defer func() { ex.modes = ex.modes[:len(ex.modes)-1] }()
			return ex.callFn(fn, args, reach)
		}
		if ns, ok := nativeSummaries[fnName(fn)]; ok && ex.cfg.useSummary[fnName(fn)] && ex.hmacNewHook != nil {
			ex.summariesUsed[fnName(fn)] = true
			return ns(ex, f, call, args, reach)
		}
		if sm := ex.P.summaries[fnName(fn)]; sm != nil && ex.cfg.useSummary[fnName(fn)] {
			return ex.applySummary(f, call, fn, sm, args, reach)
		}
		return ex.callFn(fn, args, reach)
	}
	if fn.Name() == "init" || strings.HasPrefix(fn.Name(), "init#") {
		return nil, reach // initialisers of external packages: their state is unknown anyway
	}
	ex.unsupported("external function without model: " + name)
	return ex.havocResult(fn, reach), reach
}

func (ex *Exec) invoke(f *Frame, call *ssa.Call, recv IfaceV, m *types.Func, args []Value) (Value, *Term) {
	reach := f.cur
	it := call.Common().Value.Type()
	what := ex.exprText(call.Pos(), "call")
	ex.oblige("nil", "invoke:"+what, reach, Ne(recv.Tag, Int(0)))
	key := typeKey(it) + "." + m.Name()
	if h, ok := externIface[key]; ok {
		return h(ex, f, call, recv, args, reach)
	}
	impls := ex.P.implementers(it)
	// a wide case split under a non-trivial reach condition: make sure the call is
	// reachable at all before executing every implementation (unrolled loops reach
	// here on iterations that cannot happen)
	if len(impls) > 3 && !reach.IsTrue() && ex.specDepth == 0 && ex.cfg.bytesLayer {
		nf := 0
		for _, t := range impls {
			if !And(reach, Eq(recv.Tag, Int(int64(ex.P.typeID(t))))).IsFalse() {
				nf++
			}
		}
		if nf > 3 && ex.tryProve(Not(reach), cutTimeoutMs*2) {
			ex.assumeGlobal(Not(reach))
			if call.Type() != nil {
				if tt, ok := call.Type().(*types.Tuple); !ok || tt.Len() > 0 {
					return ex.zeroValue(call.Type()), False()
				}
			}
			return nil, False()
		}
	}
	var res Value
	first := true
	okAll := False()
	var tagOK []*Term
	for _, t := range impls {
		c := Eq(recv.Tag, Int(int64(ex.P.typeID(t))))
		tagOK = append(tagOK, c)
		g := And(reach, c)
		if g.IsFalse() {
			continue
		}
		sel := ex.P.prog.MethodSets.MethodSet(t).Lookup(m.Pkg(), m.Name())
		if sel == nil {
			continue
		}
		fn := ex.P.prog.MethodValue(sel)
		if fn == nil {
			continue
		}
		rv := ex.unbox(recv, t)
		v, ok := ex.callStatic(f, call, fn, append([]Value{rv}, args...), g)
		okAll = Or(okAll, ok)
		if rt := resultType(fn); rt != nil {
			if first {
				res = v
				first = false
			} else {
				res = ex.iteValue(c, rt, v, res)
			}
		}
	}
	if len(impls) == 0 {
		ex.unsupported("invoke on interface without known implementation: " + key)
		if call.Type() != nil {
			return ex.freshValue(call.Type(), "inv", true), reach
		}
		return nil, reach
	}
	ex.assume(reach, Or(tagOK...))
	return res, okAll
}

func constantStringVal(c *ssa.Const) string {
	s := c.Value.ExactString()
	// ExactString gives a quoted Go string
	var out string
	if _, err := fmt.Sscanf(s, "%q", &out); err == nil {
		return out
	}
	return strings.Trim(s, "\"")
}

var _ = ast.Inspect

var traceCalls = os.Getenv("IKEVERIF_TRACE") != ""
var readCount int

// runBlocks executes the given blocks (topological order); loops configured for
// unrolling are executed iteration by iteration instead of being cut.
func (ex *Exec) runBlocks(f *Frame, order []*ssa.BasicBlock, entry *Term) {
	for _, b := range order {
		if f.done[b] {
			continue
		}
		if lp, ok := f.info.loops[b]; ok && f.unr[lp] == nil {
			k, ok := ex.cfg.unroll[ex.loopKey(f, lp)]
			if !ok && ex.cfg.unrollAll != 0 {
				k, ok = ex.cfg.unrollAll, true
				if k < 0 {
					k = 0
				}
			}
			if ok {
				ex.unrollLoop(f, lp, k, entry)
				continue
			}
		}
		ex.execBlock(f, b, entry)
	}
}

func (ex *Exec) unrollBack(f *Frame, from, head *ssa.BasicBlock, u *unrollState, c *Term) {
	if c.IsFalse() {
		return
	}
	idx := -1
	for i, p := range head.Preds {
		if p == from {
			idx = i
		}
	}
	for _, ins := range head.Instrs {
		phi, ok := ins.(*ssa.Phi)
		if !ok {
			break
		}
		v := ex.val(f, phi.Edges[idx])
		if old, ok := u.nextPhi[phi]; ok {
			u.nextPhi[phi] = ex.iteValue(c, phi.Type(), v, old)
		} else {
			u.nextPhi[phi] = v
		}
	}
	u.backCond = Or(u.backCond, c)
}

// unrollLoop executes up to k iterations of the loop; what remains after k
// iterations is excluded by an unwinding assumption (bounded) unless the
// configuration asks for an unwinding assertion (complete when it discharges).
func (ex *Exec) unrollLoop(f *Frame, lp *loopInfo, k int, entry *Term) {
	key := ex.loopKey(f, lp)
	head := lp.head
	var body []*ssa.BasicBlock
	for _, b := range f.info.order {
		if lp.body[b] {
			body = append(body, b)
		}
	}
	entryCond := False()
	for _, p := range head.Preds {
		if !f.info.back[[2]int{p.Index, head.Index}] {
			entryCond = Or(entryCond, ex.edgeCond(f, p, head))
		}
	}
	var phis []*ssa.Phi
	for _, ins := range head.Instrs {
		if phi, ok := ins.(*ssa.Phi); ok {
			phis = append(phis, phi)
		}
	}
	// values defined in the loop and used after it
	var liveOut []ssa.Value
	for _, b := range body {
		for _, ins := range b.Instrs {
			v, ok := ins.(ssa.Value)
			if !ok || v.Referrers() == nil {
				continue
			}
			for _, r := range *v.Referrers() {
				if !lp.body[r.Block()] {
					liveOut = append(liveOut, v)
					break
				}
			}
		}
	}
	u := &unrollState{}
	f.unr[lp] = u
	exitAcc := map[[2]int]*Term{}
	merged := map[ssa.Value]Value{}
	cur := entryCond
	phiVals := map[*ssa.Phi]Value{}
	for _, phi := range phis {
		phiVals[phi] = ex.phiValue(f, head, phi, true)
	}
	for it := 0; ; it++ {
		if cur.IsFalse() {
			break
		}
		if it == k {
			if ex.cfg.unwindAssert[key] || ex.cfg.initMode {
				ex.oblige("unwind", fmt.Sprintf("%s after %d iterations", key, k), cur, False())
			} else {
				ex.assumeGlobal(Not(cur))
				ex.bounded = append(ex.bounded, fmt.Sprintf("%s unrolled %d times (unwinding assumption)", key, k))
			}
			break
		}
		// reset per-iteration state
		for _, b := range body {
			for _, sc := range b.Succs {
				delete(f.edge, [2]int{b.Index, sc.Index})
			}
			f.done[b] = false
		}
		for l, st := range f.unr {
			if l != lp && lp.body[l.head] {
				_ = st
				delete(f.unr, l)
			}
		}
		u.cur = cur
		u.backCond = False()
		u.nextPhi = map[*ssa.Phi]Value{}
		for _, phi := range phis {
			f.vals[phi] = phiVals[phi]
		}
		ex.runBlocks(f, body, entry)
		// exits taken in this iteration
		exitThis := False()
		for _, b := range body {
			for _, sc := range b.Succs {
				if lp.body[sc] {
					continue
				}
				kk := [2]int{b.Index, sc.Index}
				if c, ok := f.edge[kk]; ok && !c.IsFalse() {
					if old, ok2 := exitAcc[kk]; ok2 {
						exitAcc[kk] = Or(old, c)
					} else {
						exitAcc[kk] = c
					}
					exitThis = Or(exitThis, c)
				}
			}
		}
		for _, v := range liveOut {
			nv, ok := f.vals[v]
			if !ok {
				continue
			}
			if old, ok := merged[v]; ok {
				merged[v] = ex.iteValue(exitThis, v.Type(), nv, old)
			} else {
				merged[v] = nv
			}
		}
		cur = u.backCond
		for _, phi := range phis {
			if nv, ok := u.nextPhi[phi]; ok {
				phiVals[phi] = nv
			}
		}
	}
	// leave the loop
	for _, b := range body {
		for _, sc := range b.Succs {
			kk := [2]int{b.Index, sc.Index}
			if lp.body[sc] {
				continue
			}
			if c, ok := exitAcc[kk]; ok {
				f.edge[kk] = c
			} else {
				delete(f.edge, kk)
			}
		}
		f.done[b] = true
	}
	for v, mv := range merged {
		f.vals[v] = mv
	}
	delete(f.unr, lp)
}

type scopeParam struct {
	ref    *Term
	prefix string
}

func itvID(t *Term) int {
	if t == nil {
		return -1
	}
	return t.id
}

// mapNext models one step of `for k, v := range m`: the keys are enumerated in an
// arbitrary order, each present key exactly once.  ok => the key is present and not
// yet visited (it becomes visited); !ok => every present key has been visited (stated
// for all keys, and instantiated for the keys the execution has stored into maps of
// this type, which is what bounded enumerations need).
// mapNextConcrete: package initialisers run on concrete data; a range over a map whose
// entries were all stored under concrete keys is executed entry by entry (in key order:
// the initialisers' result may not depend on Go's iteration order anyway).
func (ex *Exec) mapNextConcrete(f *Frame, x *ssa.Next, it *Term, mt *types.Map) (Value, bool) {
	m := ex.gread("mapiter.map", it)
	mc, ok := m.ConstInt()
	if !ok {
		return nil, false
	}
	base := mapBase(mt)
	pk := ex.mem.kind(base+"#present", SBool, nil, nil, false)
	present := map[int64]bool{}
	for i := range pk.log {
		e := &pk.log[i]
		if e.typ == eZero || e.typ == eLit {
			continue
		}
		if e.typ != eStore || e.ref == nil {
			return nil, false
		}
		rc, ok := e.ref.ConstInt()
		if !ok {
			return nil, false
		}
		if rc != mc {
			continue
		}
		kc, ok := e.idx.ConstInt()
		if !ok || !e.guard.IsTrue() || !(e.val.IsTrue() || e.val.IsFalse()) {
			return nil, false
		}
		present[kc] = e.val.IsTrue()
	}
	if ex.initVisited == nil {
		ex.initVisited = map[int]map[int64]bool{}
	}
	vis := ex.initVisited[it.id]
	if vis == nil {
		vis = map[int64]bool{}
		ex.initVisited[it.id] = vis
	}
	var keys []int64
	for k, p := range present {
		if p && !vis[k] {
			keys = append(keys, k)
		}
	}
	sort.Slice(keys, func(i, j int) bool { return keys[i] < keys[j] })
	tt := x.Type().(*types.Tuple)
	used := func(i int) bool { t := tt.At(i).Type(); return t != nil && t.String() != "invalid type" }
	if used(1) && isString(mt.Key()) {
		return nil, false
	}
	tv := TupleV{False(), nil, nil}
	if len(keys) == 0 {
		if used(1) {
			tv[1] = ex.zeroValue(tt.At(1).Type())
		}
		if used(2) {
			tv[2] = ex.zeroValue(tt.At(2).Type())
		}
		return tv, true
	}
	k := keys[0]
	vis[k] = true
	tv[0] = True()
	if used(1) {
		tv[1] = Value(Int(k))
	}
	if used(2) {
		tv[2] = ex.loadAt(base, m, Int(k), mt.Elem(), -1)
	}
	return tv, true
}

func (ex *Exec) mapNext(f *Frame, x *ssa.Next, it *Term, mt *types.Map) Value {
	if ex.cfg.initMode && f.cur.IsTrue() {
		if tv, ok := ex.mapNextConcrete(f, x, it, mt); ok {
			return tv
		}
	}
	reach := f.cur
	m := ex.gread("mapiter.map", it)
	base := mapBase(mt)
	pk := ex.mem.kind(base+"#present", SBool, nil, nil, false)
	vk := ex.mem.kind("ghost:mapiter.visited", SBool, nil, nil, false)
	kk, isInt := intKindOf(mt.Key())
	var key *Term
	if isInt {
		key = Fresh("range.key", SInt, kk.lo(), kk.hi())
	} else {
		key = Fresh("range.key", SInt, nil, nil)
	}
	ok := Fresh("range.ok", SBool, nil, nil)
	present := func(k *Term) *Term { return And(Ne(m, Int(0)), ex.mem.Read(pk, m, k, -1)) }
	visited := func(k *Term) *Term { return ex.mem.Read(vk, it, k, -1) }
	ex.assume(reach, Implies(ok, And(present(key), Not(visited(key)))))
	// exhaustion, for every key ...
	q := BoundVar("k", nil, nil)
	ex.assume(reach, Implies(Not(ok), ForallNoShift(Implies(present(q), visited(q)))))
	// ... and explicitly for the keys stored so far
	seen := map[int]bool{}
	for i := range pk.log {
		e := &pk.log[i]
		if e.typ == eStore && e.idx != nil && !seen[e.idx.id] && !containsBound(e.idx) {
			seen[e.idx.id] = true
			ex.assume(reach, Implies(Not(ok), Implies(present(e.idx), visited(e.idx))))
		}
	}
	ex.mem.Store(vk, And(reach, ok), it, key, True())
	tt := x.Type().(*types.Tuple)
	tv := TupleV{ok}
	// key
	if t := tt.At(1).Type(); t != nil && t.String() != "invalid type" {
		if isString(mt.Key()) {
			ex.unsupported("range over a map with string keys in " + fnName(f.fn))
			tv = append(tv, ex.freshValue(t, "next", true))
		} else {
			tv = append(tv, Value(key))
		}
	} else {
		tv = append(tv, nil)
	}
	// value
	if t := tt.At(2).Type(); t != nil && t.String() != "invalid type" {
		tv = append(tv, ex.loadAt(base, m, key, mt.Elem(), -1))
	} else {
		tv = append(tv, nil)
	}
	return tv
}

func loopHasMapNext(lp *loopInfo) bool {
	if lp == nil {
		return false
	}
	for b := range lp.body {
		for _, ins := range b.Instrs {
			if n, ok := ins.(*ssa.Next); ok && !n.IsString {
				return true
			}
		}
	}
	return false
}
