package main

// Assumed contracts ("models") of the standard-library and third-party functions the
// library calls.  Every entry here is part of the trusted base and is listed in the
// evidence files.  Each model states the function's panics as obligations, its effect
// on memory and its result; failure outcomes (errors) are explicit branches.

import (
	"fmt"
	"go/types"
	"math/big"
	"os"
	"strings"

	"golang.org/x/tools/go/ssa"
)

type externFn func(ex *Exec, f *Frame, call *ssa.Call, args []Value, reach *Term) (Value, *Term)
type externIfaceFn func(ex *Exec, f *Frame, call *ssa.Call, recv IfaceV, args []Value, reach *Term) (Value, *Term)

var externs = map[string]externFn{}
var externIface = map[string]externIfaceFn{}

// names of models actually used in a run (for the evidence's trusted base)
func (ex *Exec) usedModel(name string) {
	if ex.P.modelsUsed == nil {
		ex.P.modelsUsed = map[string]bool{}
	}
	ex.P.modelsUsed[name] = true
}

const errTypeName = "verif.error"

func (ex *Exec) nilErr() IfaceV { return IfaceV{Tag: Int(0), Val: Int(0)} }

func (ex *Exec) errTag() *Term { return Int(int64(ex.P.typeIDByName(errTypeName))) }

func (ex *Exec) newErr() IfaceV { return IfaceV{Tag: ex.errTag(), Val: ex.newObj()} }

func (P *Program) typeIDByName(name string) int {
	if id, ok := P.typeIDs[name]; ok {
		return id
	}
	id := len(P.typeByID)
	P.typeIDs[name] = id
	P.typeByID = append(P.typeByID, nil)
	return id
}

func (ex *Exec) gkind(name string, sort Sort, lo, hi *big.Int, isRef bool) *kindInfo {
	return ex.mem.kind("ghost:"+name, sort, lo, hi, isRef)
}

func (ex *Exec) gread(name string, ref *Term) *Term {
	return ex.mem.Read(ex.gkind(name, SInt, nil, nil, false), ref, Int(0), -1)
}

func (ex *Exec) gwrite(name string, guard, ref, val *Term) {
	ex.mem.Store(ex.gkind(name, SInt, nil, nil, false), guard, ref, Int(0), val)
}

func (ex *Exec) gsliceRead(name string, ref *Term) SliceV {
	s := SliceV{Arr: ex.mem.Read(ex.gkind(name+".arr", SInt, nil, nil, true), ref, Int(0), -1),
		Off:  ex.mem.Read(ex.gkind(name+".off", SInt, bi(0), pow48, false), ref, Int(0), -1),
		Len:  ex.mem.Read(ex.gkind(name+".len", SInt, bi(0), pow48, false), ref, Int(0), -1),
		Cap:  ex.mem.Read(ex.gkind(name+".cap", SInt, bi(0), pow48, false), ref, Int(0), -1),
		Elem: types.Typ[types.Byte]}
	ex.assumeSliceWF(s)
	return s
}

func (ex *Exec) gsliceWrite(name string, guard, ref *Term, s SliceV) {
	ex.mem.Store(ex.gkind(name+".arr", SInt, nil, nil, true), guard, ref, Int(0), s.Arr)
	ex.mem.Store(ex.gkind(name+".off", SInt, bi(0), pow48, false), guard, ref, Int(0), s.Off)
	ex.mem.Store(ex.gkind(name+".len", SInt, bi(0), pow48, false), guard, ref, Int(0), s.Len)
	ex.mem.Store(ex.gkind(name+".cap", SInt, bi(0), pow48, false), guard, ref, Int(0), s.Cap)
}

// unknownBytes returns a reference to an object whose bytes are unconstrained.
func (ex *Exec) unknownBytes() *Term {
	ex.P.nextUnk++
	return Int(-(1 << 42) - ex.P.nextUnk)
}

func (ex *Exec) readByte(arr, idx *Term) *Term { return ex.mem.Read(ex.byteKind(), arr, idx, -1) }

func be(ex *Exec, s SliceV, n int) *Term {
	var parts []*Term
	for i := 0; i < n; i++ {
		parts = append(parts, MulC(pow2(uint(8*(n-1-i))), ex.readByte(s.Arr, Add(s.Off, Int(int64(i))))))
	}
	return Add(parts...)
}

func putBE(ex *Exec, guard *Term, s SliceV, v *Term, n int) {
	k := ex.byteKind()
	for i := 0; i < n; i++ {
		ex.mem.Store(k, guard, s.Arr, Add(s.Off, Int(int64(i))), bitsField(v, uint(8*(n-1-i)), 8))
	}
}

func tupleErr(v Value, e IfaceV) TupleV { return TupleV{v, e} }

func init() {
	// ----- errors -----
	mkErr := func(ex *Exec, f *Frame, call *ssa.Call, args []Value, reach *Term) (Value, *Term) {
		ex.usedModel("pkg/errors.Errorf/New, fmt.Errorf: return a non-nil error")
		return ex.newErr(), reach
	}
	externs["github.com/pkg/errors.Errorf"] = mkErr
	externs["github.com/pkg/errors.New"] = mkErr
	externs["errors.New"] = mkErr
	externs["fmt.Errorf"] = mkErr
	wrap := func(ex *Exec, f *Frame, call *ssa.Call, args []Value, reach *Term) (Value, *Term) {
		ex.usedModel("pkg/errors.Wrapf/Wrap: nil iff the wrapped error is nil")
		e := args[0].(IfaceV)
		isNil := Eq(e.Tag, Int(0))
		n := ex.newErr()
		return IfaceV{Tag: Ite(isNil, Int(0), n.Tag), Val: Ite(isNil, Int(0), n.Val.(*Term))}, reach
	}
	externs["github.com/pkg/errors.Wrapf"] = wrap
	externs["github.com/pkg/errors.Wrap"] = wrap

	// ----- encoding/binary -----
	for _, w := range []int{2, 4, 8} {
		n := w
		externs[fmt.Sprintf("(encoding/binary.bigEndian).Uint%d", 8*n)] = func(ex *Exec, f *Frame, call *ssa.Call, args []Value, reach *Term) (Value, *Term) {
			ex.usedModel("encoding/binary.BigEndian.UintN: panics unless len(b) >= N/8; big-endian value of b[0:N/8]")
			s := args[1].(SliceV)
			ex.oblige("pre", fmt.Sprintf("BigEndian.Uint%d:%s", 8*n, ex.exprText(call.Pos(), "call")), reach, Ge(s.Len, Int(int64(n))))
			return be(ex, s, n), reach
		}
		externs[fmt.Sprintf("(encoding/binary.bigEndian).PutUint%d", 8*n)] = func(ex *Exec, f *Frame, call *ssa.Call, args []Value, reach *Term) (Value, *Term) {
			ex.usedModel("encoding/binary.BigEndian.PutUintN: panics unless len(b) >= N/8; writes b[0:N/8] big-endian")
			s := args[1].(SliceV)
			ex.oblige("pre", fmt.Sprintf("BigEndian.PutUint%d:%s", 8*n, ex.exprText(call.Pos(), "call")), reach, Ge(s.Len, Int(int64(n))))
			putBE(ex, reach, s, args[2].(*Term), n)
			return nil, reach
		}
	}
	externs["encoding/binary.Write"] = func(ex *Exec, f *Frame, call *ssa.Call, args []Value, reach *Term) (Value, *Term) {
		ex.usedModel("encoding/binary.Write(*bytes.Buffer, BigEndian, fixed-size integer | []byte): appends the big-endian bytes, returns nil")
		w := args[0].(IfaceV)
		data := args[2].(IfaceV)
		buf := ex.unbox(w, nil)
		bp, ok := buf.(PtrV)
		if !ok {
			ex.unsupported("binary.Write to non-buffer")
			return ex.nilErr(), reach
		}
		cur := ex.gsliceRead("bytes.Buffer", bp.Ref)
		tid, ok := data.Tag.ConstInt()
		if !ok {
			ex.unsupported("binary.Write of dynamic type")
			return ex.nilErr(), reach
		}
		dt := ex.P.typeByID[tid]
		var src SliceV
		if ik, ok := intKindOf(dt); ok {
			n := int(ik.bits / 8)
			tmp := ex.newObj()
			src = SliceV{Arr: tmp, Off: Int(0), Len: Int(int64(n)), Cap: Int(int64(n)), Elem: types.Typ[types.Byte]}
			v := data.Val.(*Term)
			if ik.signed {
				v = Wrap(v, IntKind{ik.bits, false})
			}
			putBE(ex, reach, src, v, n)
		} else if sv, ok := data.Val.(SliceV); ok {
			src = sv
		} else {
			ex.unsupported("binary.Write of " + dt.String())
			return ex.nilErr(), reach
		}
		res := ex.appendSlice(reach, cur, src)
		ex.gsliceWrite("bytes.Buffer", reach, bp.Ref, res)
		if traceHyp == "binwrite" {
			k := ex.byteKind()
			for i, e := range k.log {
				fmt.Fprintf(os.Stderr, "  log[%d] typ=%d guard=%v ref=%v idx=%v val=%v n=%v src=%v\n", i, e.typ, e.guard, e.ref, e.idx, e.val, e.n, e.src)
			}
			for name := range ex.mem.kinds {
				if strings.Contains(name, "byte") || strings.Contains(name, "uint8") {
					fmt.Fprintf(os.Stderr, "  kind %q log=%d\n", name, len(ex.mem.kinds[name].log))
				}
			}
			fmt.Fprintf(os.Stderr, "BINWRITE cur=%v/%v/%v src=%v len=%v res.arr=%v res[0]=%v src[0]=%v\n", cur.Arr, cur.Len, cur.Cap, src.Arr, src.Len, res.Arr, ex.readByte(res.Arr, res.Off), ex.readByte(src.Arr, src.Off))
		}
		return ex.nilErr(), reach
	}
	externs["(*bytes.Buffer).Bytes"] = func(ex *Exec, f *Frame, call *ssa.Call, args []Value, reach *Term) (Value, *Term) {
		ex.usedModel("(*bytes.Buffer).Bytes: the accumulated bytes")
		bp := ex.ptr(args[0])
		return ex.gsliceRead("bytes.Buffer", bp.Ref), reach
	}

	// ----- readers -----
	externs["bytes.NewReader"] = func(ex *Exec, f *Frame, call *ssa.Call, args []Value, reach *Term) (Value, *Term) {
		ex.usedModel("bytes.NewReader/bufio.NewReader over it: sequential reader of the slice; ReadByte/io.ReadFull return io.EOF / io.ErrUnexpectedEOF exactly as documented")
		s := args[0].(SliceV)
		r := ex.newObj()
		ex.gsliceWrite("reader", reach, r, s)
		ex.gwrite("reader.pos", reach, r, Int(0))
		ex.varHooks = append(ex.varHooks, func() *Term {
			return Sub(s.Len, ex.readerPos(r, s.Len))
		})
		return PtrV{Ref: r, T: call.Type().(*types.Pointer).Elem()}, reach
	}
	externs["bufio.NewReader"] = func(ex *Exec, f *Frame, call *ssa.Call, args []Value, reach *Term) (Value, *Term) {
		rd := args[0].(IfaceV)
		p, ok := ex.unbox(rd, nil).(PtrV)
		if !ok {
			ex.unsupported("bufio.NewReader over unknown reader")
			return ex.freshValue(call.Type(), "bufio", true), reach
		}
		return PtrV{Ref: p.Ref, T: call.Type().(*types.Pointer).Elem()}, reach
	}
	externs["(*bufio.Reader).ReadByte"] = func(ex *Exec, f *Frame, call *ssa.Call, args []Value, reach *Term) (Value, *Term) {
		r := ex.ptr(args[0]).Ref
		s := ex.gsliceRead("reader", r)
		pos := ex.readerPos(r, s.Len)
		has := Lt(pos, s.Len)
		b := ex.readByte(s.Arr, Add(s.Off, pos))
		ex.gwrite("reader.pos", And(reach, has), r, Add(pos, Int(1)))
		eof := ex.loadGlobalIface("io", "EOF")
		return TupleV{Ite(has, b, Int(0)), IfaceV{Tag: Ite(has, Int(0), eof.Tag), Val: Ite(has, Int(0), eof.Val.(*Term))}}, reach
	}
	externs["io.ReadFull"] = func(ex *Exec, f *Frame, call *ssa.Call, args []Value, reach *Term) (Value, *Term) {
		rd := args[0].(IfaceV)
		buf := args[1].(SliceV)
		if ex.isRandReader(rd) {
			return ex.randFill(buf, reach), reach
		}
		p, ok := ex.unbox(rd, nil).(PtrV)
		if !ok {
			ex.unsupported("io.ReadFull from unknown reader")
			return TupleV{Fresh("n", SInt, bi(0), nil), ex.newErr()}, reach
		}
		r := p.Ref
		s := ex.gsliceRead("reader", r)
		pos := ex.readerPos(r, s.Len)
		rem := Sub(s.Len, pos)
		n := Min(buf.Len, rem)
		ex.mem.Copy(ex.byteKind(), reach, buf.Arr, buf.Off, n, s.Arr, Add(s.Off, pos))
		ex.gwrite("reader.pos", reach, r, Add(pos, n))
		eof := ex.loadGlobalIface("io", "EOF")
		ueof := ex.loadGlobalIface("io", "ErrUnexpectedEOF")
		full := Eq(n, buf.Len)
		none := Eq(n, Int(0))
		tag := Ite(full, Int(0), Ite(none, eof.Tag, ueof.Tag))
		val := Ite(full, Int(0), Ite(none, eof.Val.(*Term), ueof.Val.(*Term)))
		return TupleV{n, IfaceV{Tag: tag, Val: val}}, reach
	}

	// ----- randomness -----
	externs["crypto/rand.Read"] = func(ex *Exec, f *Frame, call *ssa.Call, args []Value, reach *Term) (Value, *Term) {
		return ex.randFill(args[0].(SliceV), reach), reach
	}

	// ----- misc -----
	externs["strings.Repeat"] = func(ex *Exec, f *Frame, call *ssa.Call, args []Value, reach *Term) (Value, *Term) {
		s := args[0].(StrV)
		n, ok := args[1].(*Term).ConstInt()
		if s.Lit == nil || !ok {
			ex.unsupported("strings.Repeat of non-constant")
			return ex.freshValue(call.Type(), "repeat", true), reach
		}
		return ex.strLit(strings.Repeat(*s.Lit, int(n))), reach
	}
	opaqueStr := func(ex *Exec, f *Frame, call *ssa.Call, args []Value, reach *Term) (Value, *Term) {
		ex.usedModel("fmt.Sprintf / strconv / hex: some string (content not modelled; only used in String() and error text)")
		return ex.freshValue(call.Type(), "str", true), reach
	}
	externs["fmt.Sprintf"] = opaqueStr
	externs["strconv.FormatUint"] = opaqueStr
	externs["encoding/hex.EncodeToString"] = opaqueStr
	externs["encoding/hex.Dump"] = opaqueStr
	externs["bytes.Equal"] = func(ex *Exec, f *Frame, call *ssa.Call, args []Value, reach *Term) (Value, *Term) {
		ex.usedModel("bytes.Equal / hmac.Equal: content equality")
		return ex.bytesEqual(args[0].(SliceV), args[1].(SliceV)), reach
	}
	externs["crypto/hmac.Equal"] = externs["bytes.Equal"]
	externs["net.ParseIP"] = func(ex *Exec, f *Frame, call *ssa.Call, args []Value, reach *Term) (Value, *Term) {
		ex.usedModel("net.ParseIP(s).To4(): nil or the 4 octets of the dotted quad (content abstract)")
		s := args[0].(StrV)
		ex.ghost["parseip.arg"] = s
		v := ex.freshValue(call.Type(), "ip", true).(SliceV)
		return v, reach
	}
	externs["(net.IP).To4"] = func(ex *Exec, f *Frame, call *ssa.Call, args []Value, reach *Term) (Value, *Term) {
		valid := Fresh("ipvalid", SBool, nil, nil)
		ref := ex.newObj()
		ex.mem.Copy(ex.byteKind(), reach, ref, Int(0), Int(4), ex.unknownBytes(), Int(0))
		return SliceV{Arr: Ite(valid, ref, Int(0)), Off: Int(0), Len: Ite(valid, Int(4), Int(0)), Cap: Ite(valid, Int(4), Int(0)), Elem: types.Typ[types.Byte]}, reach
	}
}

func (ex *Exec) readerPos(r, n *Term) *Term {
	pos := ex.gread("reader.pos", r)
	// object invariant of the reader model: 0 <= pos <= len
	ex.assumeGlobal(And(Le(Int(0), pos), Le(pos, n)))
	return pos
}

func (ex *Exec) bytesEqual(a, b SliceV) *Term {
	if h := ex.bytesEqHook; h != nil {
		return h(a, b)
	}
	// without the Bytes layer: equal lengths are necessary, content abstract
	eq := Fresh("byteseq", SBool, nil, nil)
	ex.assumeGlobal(Implies(eq, Eq(a.Len, b.Len)))
	if a.Arr == b.Arr && a.Off == b.Off && a.Len == b.Len {
		return True()
	}
	return eq
}

// randFill models a read from crypto/rand: it may fail; otherwise the whole
// buffer is overwritten with arbitrary octets drawn by this call.
func (ex *Exec) randFill(buf SliceV, reach *Term) Value {
	ex.usedModel("crypto/rand.Read / io.ReadFull(rand.Reader, b): may fail with a non-nil error; otherwise fills b with fresh arbitrary octets")
	ok := Fresh("rand.ok", SBool, nil, nil)
	src := ex.unknownBytes()
	ex.mem.Copy(ex.byteKind(), And(reach, ok), buf.Arr, buf.Off, buf.Len, src, Int(0))
	partial := Fresh("rand.n", SInt, bi(0), pow48)
	ex.assumeGlobal(Le(partial, buf.Len))
	ex.mem.Copy(ex.byteKind(), And(reach, Not(ok)), buf.Arr, buf.Off, partial, ex.unknownBytes(), Int(0))
	e := ex.newErr()
	ex.randDraws = append(ex.randDraws, randDraw{ok: ok, src: src, n: buf.Len, reach: reach})
	return TupleV{Ite(ok, buf.Len, partial), IfaceV{Tag: Ite(ok, Int(0), e.Tag), Val: Ite(ok, Int(0), e.Val.(*Term))}}
}

type randDraw struct {
	ok    *Term
	src   *Term
	n     *Term
	reach *Term
}

func (ex *Exec) isRandReader(rd IfaceV) bool {
	id := ex.P.typeIDByName("crypto/rand.reader")
	c, ok := rd.Tag.ConstInt()
	return ok && int(c) == id
}

func (ex *Exec) loadGlobalIface(pkg, name string) IfaceV {
	sp := ex.P.prog.ImportedPackage(pkg)
	if sp == nil {
		ex.unsupported("package not loaded: " + pkg)
		return ex.newErr()
	}
	g := sp.Var(name)
	return ex.loadPtr(ex.P.globalPtr(g)).(IfaceV)
}

// setWellKnownGlobals gives the few external globals the library observes a definite,
// distinct value.
func (P *Program) setWellKnownGlobals(ex *Exec) {
	set := func(pkg, name string, v IfaceV) {
		sp := P.prog.ImportedPackage(pkg)
		if sp == nil {
			return
		}
		g := sp.Var(name)
		if g == nil {
			return
		}
		ex.storePtr(P.globalPtr(g), True(), v)
	}
	P.nextExt++
	set("io", "EOF", IfaceV{Tag: Int(int64(P.typeIDByName(errTypeName))), Val: Int(-(1 << 41) - P.nextExt)})
	P.nextExt++
	set("io", "ErrUnexpectedEOF", IfaceV{Tag: Int(int64(P.typeIDByName(errTypeName))), Val: Int(-(1 << 41) - P.nextExt)})
	P.nextExt++
	set("crypto/rand", "Reader", IfaceV{Tag: Int(int64(P.typeIDByName("crypto/rand.reader"))), Val: Int(-(1 << 41) - P.nextExt)})
}

// ---------- intrinsics (functions defined in the overlay files) ----------

func intrinsicTable() map[string]func(ex *Exec, f *Frame, call *ssa.Call, args []Value, reach *Term) (Value, *Term) {
	tab := intrinsicTable0()
	contractIntrinsics(tab)
	return tab
}

func intrinsicTable0() map[string]func(ex *Exec, f *Frame, call *ssa.Call, args []Value, reach *Term) (Value, *Term) {
	return map[string]func(ex *Exec, f *Frame, call *ssa.Call, args []Value, reach *Term) (Value, *Term){
		"verifAssert": func(ex *Exec, f *Frame, call *ssa.Call, args []Value, reach *Term) (Value, *Term) {
			label := "assert"
			if s, ok := args[1].(StrV); ok && s.Lit != nil {
				label = *s.Lit
			}
			c := args[0].(*Term)
			ex.oblige("assert", label, reach, c)
			// assert-then-assume also for the path condition when the assertion is a small
			// fact such as err == nil (keeps later terms simple); large assertions stay
			// hypotheses only
			// The path condition is strengthened only with atomic facts of the form
			// `err == nil` (they prune the error paths of everything that follows).  It is
			// deliberately NOT strengthened with larger assertions: a failing one would then
			// hide every later failure of the lemma, which the independence re-check cannot undo.
			if termSizeAtMost(c, 3) {
				return nil, And(reach, c)
			}
			return nil, reach
		},
		"verifAssume": func(ex *Exec, f *Frame, call *ssa.Call, args []Value, reach *Term) (Value, *Term) {
			c := args[0].(*Term)
			ex.assume(reach, c)
			return nil, And(reach, c)
		},
		"verifCover": func(ex *Exec, f *Frame, call *ssa.Call, args []Value, reach *Term) (Value, *Term) {
			label := "cover"
			if s, ok := args[0].(StrV); ok && s.Lit != nil {
				label = *s.Lit
			}
			ex.covers = append(ex.covers, &Obligation{Name: ex.curFn() + "#cover:" + label, Class: "cover", Goal: reach, NHyps: len(ex.hyps)})
			return nil, reach
		},
		"verifBytesEq": func(ex *Exec, f *Frame, call *ssa.Call, args []Value, reach *Term) (Value, *Term) {
			a, b := args[0].(SliceV), args[1].(SliceV)
			if ex.bytesEqHook != nil {
				// Bytes layer: equality of the two values (its extensionality instance gives
				// the differing index as a witness with both sides under bat(.,.), which is
				// what the definitions of the values trigger on)
				return And(Eq(a.Len, b.Len), ex.bytesEqHook(a, b)), reach
			}
			return ex.contentEq(a, b), reach
		},
		"verifSameSlice": func(ex *Exec, f *Frame, call *ssa.Call, args []Value, reach *Term) (Value, *Term) {
			a, b := args[0].(SliceV), args[1].(SliceV)
			return And(Eq(a.Len, b.Len), Or(Eq(a.Len, Int(0)), And(Eq(a.Arr, b.Arr), Eq(a.Off, b.Off)))), reach
		},
		"verifSamePayloads": func(ex *Exec, f *Frame, call *ssa.Call, args []Value, reach *Term) (Value, *Term) {
			a, b := args[0].(SliceV), args[1].(SliceV)
			return And(Eq(a.Len, b.Len), Or(Eq(a.Len, Int(0)), And(Eq(a.Arr, b.Arr), Eq(a.Off, b.Off)))), reach
		},
		"verifDisjoint": func(ex *Exec, f *Frame, call *ssa.Call, args []Value, reach *Term) (Value, *Term) {
			a, b := args[0].(SliceV), args[1].(SliceV)
			return Or(Eq(a.Arr, Int(0)), Eq(b.Arr, Int(0)), Ne(a.Arr, b.Arr)), reach
		},
		// verifRandDrawn(s): s holds exactly the octets of one successful draw from the
		// system random source made during this execution
		"verifRandDrawn": func(ex *Exec, f *Frame, call *ssa.Call, args []Value, reach *Term) (Value, *Term) {
			s := args[0].(SliceV)
			var alts []*Term
			for _, d := range ex.randDraws {
				alts = append(alts, And(d.reach, d.ok, ex.contentEq(s, SliceV{Arr: d.src, Off: Int(0), Len: d.n, Cap: d.n, Elem: s.Elem})))
			}
			return Or(alts...), reach
		},
		// verifRandFailed(): some read of the system random source failed during this execution
		"verifRandFailed": func(ex *Exec, f *Frame, call *ssa.Call, args []Value, reach *Term) (Value, *Term) {
			var alts []*Term
			for _, d := range ex.randDraws {
				alts = append(alts, And(d.reach, Not(d.ok)))
			}
			for _, d := range ex.randIntFail {
				alts = append(alts, d)
			}
			return Or(alts...), reach
		},
		// verifRandIntDrawn(x): x is exactly a value returned by a successful crypto/rand.Int
		// call made during this execution
		"verifRandIntDrawn": func(ex *Exec, f *Frame, call *ssa.Call, args []Value, reach *Term) (Value, *Term) {
			p := ex.ptr(args[0])
			v := ex.bigVal(p.Ref)
			var alts []*Term
			for _, n := range ex.randInts {
				alts = append(alts, Eq(v, n))
			}
			return And(Ne(p.Ref, Int(0)), Or(alts...)), reach
		},
		"verifPrfPlusSpec": func(ex *Exec, f *Frame, call *ssa.Call, args []Value, reach *Term) (Value, *Term) {
			if ex.hmacNewHook == nil {
				ex.unsupported("verifPrfPlusSpec needs //verif:bytes")
				return ex.freshValue(call.Type(), "prfplus", true), reach
			}
			return ex.prfPlusSpec(args[0].(IfaceV), args[1].(SliceV), args[2].(*Term)), reach
		},
		"verifFrameBegin": func(ex *Exec, f *Frame, call *ssa.Call, args []Value, reach *Term) (Value, *Term) {
			return Int(int64(ex.frameBegin())), reach
		},
		"verifFrameAllow": func(ex *Exec, f *Frame, call *ssa.Call, args []Value, reach *Term) (Value, *Term) {
			i, ok := args[0].(*Term).ConstInt()
			r := frameRefOf(args[1])
			if !ok || int(i) >= len(ex.frameMarks) || r == nil {
				ex.unsupported("verifFrameAllow: mark or object not understood")
				return nil, reach
			}
			ex.frameMarks[i].allowed = append(ex.frameMarks[i].allowed, r)
			return nil, reach
		},
		"verifFrameAllowKind": func(ex *Exec, f *Frame, call *ssa.Call, args []Value, reach *Term) (Value, *Term) {
			i, ok := args[0].(*Term).ConstInt()
			s, ok2 := args[1].(StrV)
			if !ok || !ok2 || s.Lit == nil || int(i) >= len(ex.frameMarks) {
				ex.unsupported("verifFrameAllowKind: mark or kind not understood")
				return nil, reach
			}
			ex.frameMarks[i].kinds = append(ex.frameMarks[i].kinds, *s.Lit)
			return nil, reach
		},
		"verifFrameEnd": func(ex *Exec, f *Frame, call *ssa.Call, args []Value, reach *Term) (Value, *Term) {
			i, ok := args[0].(*Term).ConstInt()
			s, ok2 := args[1].(StrV)
			if !ok || !ok2 || s.Lit == nil || int(i) >= len(ex.frameMarks) {
				ex.unsupported("verifFrameEnd: mark or label not understood")
				return nil, reach
			}
			ex.frameEnd(int(i), *s.Lit, reach)
			return nil, reach
		},
		"verifFresh": func(ex *Exec, f *Frame, call *ssa.Call, args []Value, reach *Term) (Value, *Term) {
			// true iff the slice is empty or its array was allocated during this execution
			s := args[0].(SliceV)
			return Or(Eq(s.Arr, Int(0)), Gt(s.Arr, Int(ex.P.initCtr))), reach
		},
	}
}

// contentEq: equal length and equal bytes.  Expressed with a skolem index so that,
// used as a goal, it is quantifier free: exists no index at which they differ.
func (ex *Exec) contentEq(a, b SliceV) *Term {
	if a.Arr == b.Arr && a.Off == b.Off && a.Len == b.Len {
		return True()
	}
	i := Fresh("sk", SInt, nil, nil)
	ex.skolems = append(ex.skolems, i)
	inr := And(Le(Int(0), i), Lt(i, a.Len))
	ea := ex.readElem(a, i)
	eb := ex.readElem(b, i)
	return And(Eq(a.Len, b.Len), Implies(inr, Eq(ea, eb)))
}

func (ex *Exec) readElem(s SliceV, i *Term) *Term {
	ks := ex.elemKinds(s.Elem)
	return ex.mem.Read(ks[0], s.Arr, Add(s.Off, i), -1)
}

// termSizeAtMost: t has at most n nodes (as a tree).
func termSizeAtMost(t *Term, n int) bool {
	cnt := 0
	var walk func(t *Term) bool
	walk = func(t *Term) bool {
		cnt++
		if cnt > n {
			return false
		}
		for _, a := range t.args {
			if !walk(a) {
				return false
			}
		}
		return true
	}
	return walk(t)
}
