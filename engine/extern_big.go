package main

// math/big and crypto/rand.Int: integers as mathematical Ints in a ghost cell.

import (
	"go/types"
	"math/big"

	"golang.org/x/tools/go/ssa"
)

func (ex *Exec) bigVal(ref *Term) *Term {
	return ex.mem.Read(ex.gkind("big.val", SInt, nil, nil, false), ref, Int(0), -1)
}

func (ex *Exec) setBigVal(guard, ref, v *Term) {
	ex.mem.Store(ex.gkind("big.val", SInt, nil, nil, false), guard, ref, Int(0), v)
}

var fnByteLen = DeclFunc("big.bytelen", []Sort{SInt}, SInt)
var fnModExp = DeclFunc("modexp", []Sort{SInt, SInt, SInt}, SInt)
var fnI2OSP = DeclFunc("i2osp", []Sort{SInt}, SInt)

func byteLenTerm(v *Term) *Term {
	if v.IsConst() && v.k.Sign() >= 0 {
		return Int(int64((v.k.BitLen() + 7) / 8))
	}
	if v.op == "ite" && constLeafCount(v, 0) > 0 {
		return Ite(v.args[0], byteLenTerm(v.args[1]), byteLenTerm(v.args[2]))
	}
	return App(fnByteLen, bi(0), bi(1<<20), v)
}

// byteLen is byteLenTerm plus the facts about the constants that may flow into it.
func (ex *Exec) byteLen(v *Term) *Term {
	var walk func(t *Term, d int)
	walk = func(t *Term, d int) {
		if d > 8 {
			return
		}
		if t.op == "const" && t.k.Sign() >= 0 && t.k.BitLen() > 62 {
			ex.assumeGlobal(Eq(App(fnByteLen, bi(0), bi(1<<20), t), Int(int64((t.k.BitLen()+7)/8))))
		}
		if t.op == "ite" {
			walk(t.args[1], d+1)
			walk(t.args[2], d+1)
		}
	}
	walk(v, 0)
	return byteLenTerm(v)
}

func init() {
	externs["(*math/big.Int).SetString"] = func(ex *Exec, f *Frame, call *ssa.Call, args []Value, reach *Term) (Value, *Term) {
		ex.usedModel("(*big.Int).SetString of a constant string: evaluated by math/big at verification time")
		p := ex.ptr(args[0])
		s := args[1].(StrV)
		base, ok := args[2].(*Term).ConstInt()
		if s.Lit == nil || !ok {
			ex.unsupported("big.Int.SetString of non-constant")
			return TupleV{p, Fresh("ok", SBool, nil, nil)}, reach
		}
		n, good := new(big.Int).SetString(*s.Lit, int(base))
		if !good {
			return TupleV{PtrV{Ref: Int(0), T: p.T}, False()}, reach
		}
		ex.setBigVal(reach, p.Ref, IntB(n))
		return TupleV{p, True()}, reach
	}
	externs["math/big.NewInt"] = func(ex *Exec, f *Frame, call *ssa.Call, args []Value, reach *Term) (Value, *Term) {
		ref := ex.newObj()
		ex.setBigVal(reach, ref, args[0].(*Term))
		return PtrV{Ref: ref, T: call.Type().(*types.Pointer).Elem()}, reach
	}
	externs["(*math/big.Int).SetUint64"] = func(ex *Exec, f *Frame, call *ssa.Call, args []Value, reach *Term) (Value, *Term) {
		p := ex.ptr(args[0])
		ex.setBigVal(reach, p.Ref, args[1].(*Term))
		return p, reach
	}
	externs["(*math/big.Int).SetBytes"] = func(ex *Exec, f *Frame, call *ssa.Call, args []Value, reach *Term) (Value, *Term) {
		ex.usedModel("(*big.Int).SetBytes: some non-negative integer determined by the bytes (OS2IP, abstract)")
		p := ex.ptr(args[0])
		v := Fresh("os2ip", SInt, bi(0), nil)
		ex.setBigVal(reach, p.Ref, v)
		return p, reach
	}
	externs["(*math/big.Int).Exp"] = func(ex *Exec, f *Frame, call *ssa.Call, args []Value, reach *Term) (Value, *Term) {
		ex.usedModel("(*big.Int).Exp(x,y,m) with m > 0: modexp(x,y,m), 0 <= result < m (uninterpreted otherwise)")
		p := ex.ptr(args[0])
		x, y, m := ex.bigVal(ex.ptr(args[1]).Ref), ex.bigVal(ex.ptr(args[2]).Ref), ex.bigVal(ex.ptr(args[3]).Ref)
		ex.oblige("nil", "big.Exp operands", reach, And(Ne(ex.ptr(args[1]).Ref, Int(0)), Ne(ex.ptr(args[2]).Ref, Int(0))))
		r := App(fnModExp, nil, nil, x, y, m)
		// (g^a)^b = (g^b)^a (mod m): instantiated when the base is itself a power mod m
		if x.op == "app" && x.name == fnModExp.name && x.args[2] == m {
			ex.usedModel("number theory (assumed): modexp(modexp(g,a,m),b,m) = modexp(modexp(g,b,m),a,m)")
			ex.assumeAxiom(Eq(r, App(fnModExp, nil, nil, App(fnModExp, nil, nil, x.args[0], y, m), x.args[1], m)))
		}
		ex.assume(And(reach, Gt(m, Int(0))), And(Le(Int(0), r), Lt(r, m)))
		// byte length is monotone: r < m  =>  bytelen(r) <= bytelen(m)
		ex.assume(And(reach, Gt(m, Int(0))), Le(ex.byteLen(r), ex.byteLen(m)))
		ex.setBigVal(reach, p.Ref, r)
		return p, reach
	}
	externs["(*math/big.Int).Bytes"] = func(ex *Exec, f *Frame, call *ssa.Call, args []Value, reach *Term) (Value, *Term) {
		ex.usedModel("(*big.Int).Bytes: minimal-length big-endian magnitude (length = bytelen(v), content abstract)")
		p := ex.ptr(args[0])
		ex.oblige("nil", "big.Bytes receiver", reach, Ne(p.Ref, Int(0)))
		v := ex.bigVal(p.Ref)
		n := ex.byteLen(v)
		ref := ex.newObj()
		src := ex.unknownBytes()
		if ex.hmacNewHook != nil {
			// Bytes layer: the content is a function of the value (I2OSP, minimal length)
			id := App(fnI2OSP, nil, nil, v)
			ex.assumeAxiom(Eq(blenT(id), n))
			ex.noteLen(id, n)
			src = ex.bytesRef(id, n)
		}
		ex.mem.Copy(ex.byteKind(), reach, ref, Int(0), n, src, Int(0))
		ex.ghost["bigbytes:"+ref.String()] = v
		return SliceV{Arr: ref, Off: Int(0), Len: n, Cap: n, Elem: types.Typ[types.Byte]}, reach
	}
	// exact arithmetic on the mathematical values (z receives the result and is returned)
	bin := func(name string, f func(ex *Exec, reach, x, y *Term) *Term) {
		externs["(*math/big.Int)."+name] = func(ex *Exec, fr *Frame, call *ssa.Call, args []Value, reach *Term) (Value, *Term) {
			p := ex.ptr(args[0])
			xp, yp := ex.ptr(args[1]), ex.ptr(args[2])
			ex.oblige("nil", "big."+name+" operands", reach, And(Ne(p.Ref, Int(0)), Ne(xp.Ref, Int(0)), Ne(yp.Ref, Int(0))))
			ex.setBigVal(reach, p.Ref, f(ex, reach, ex.bigVal(xp.Ref), ex.bigVal(yp.Ref)))
			return p, reach
		}
	}
	bin("Add", func(ex *Exec, reach, x, y *Term) *Term { return Add(x, y) })
	bin("Sub", func(ex *Exec, reach, x, y *Term) *Term { return Sub(x, y) })
	bin("Mul", func(ex *Exec, reach, x, y *Term) *Term { return Mul(x, y) })
	bin("Mod", func(ex *Exec, reach, x, y *Term) *Term {
		// Euclidean modulus; a zero modulus panics
		ex.oblige("pre", "big.Mod: modulus != 0", reach, Ne(y, Int(0)))
		return EMod(x, y)
	})
	shift := func(name string, left bool) {
		externs["(*math/big.Int)."+name] = func(ex *Exec, fr *Frame, call *ssa.Call, args []Value, reach *Term) (Value, *Term) {
			p := ex.ptr(args[0])
			xp := ex.ptr(args[1])
			ex.oblige("nil", "big."+name+" operands", reach, And(Ne(p.Ref, Int(0)), Ne(xp.Ref, Int(0))))
			x := ex.bigVal(xp.Ref)
			n, ok := args[2].(*Term).ConstInt()
			var r *Term
			if ok && n >= 0 && n < 1<<16 {
				pw := new(big.Int).Lsh(big.NewInt(1), uint(n))
				if left {
					r = MulC(pw, x)
				} else {
					r = EDivC(x, pw) // Rsh rounds towards minus infinity: floor division
				}
			} else {
				ex.unsupported("big.Int." + name + " by a non-constant amount")
				r = Fresh("big.shift", SInt, nil, nil)
			}
			ex.setBigVal(reach, p.Ref, r)
			return p, reach
		}
	}
	shift("Lsh", true)
	shift("Rsh", false)
	externs["(*math/big.Int).Set"] = func(ex *Exec, fr *Frame, call *ssa.Call, args []Value, reach *Term) (Value, *Term) {
		p, xp := ex.ptr(args[0]), ex.ptr(args[1])
		ex.oblige("nil", "big.Set operands", reach, And(Ne(p.Ref, Int(0)), Ne(xp.Ref, Int(0))))
		ex.setBigVal(reach, p.Ref, ex.bigVal(xp.Ref))
		return p, reach
	}
	externs["(*math/big.Int).SetInt64"] = func(ex *Exec, fr *Frame, call *ssa.Call, args []Value, reach *Term) (Value, *Term) {
		p := ex.ptr(args[0])
		ex.setBigVal(reach, p.Ref, args[1].(*Term))
		return p, reach
	}
	externs["(*math/big.Int).Sign"] = func(ex *Exec, fr *Frame, call *ssa.Call, args []Value, reach *Term) (Value, *Term) {
		p := ex.ptr(args[0])
		ex.oblige("nil", "big.Sign receiver", reach, Ne(p.Ref, Int(0)))
		v := ex.bigVal(p.Ref)
		return Ite(Lt(v, Int(0)), Int(-1), Ite(Eq(v, Int(0)), Int(0), Int(1))), reach
	}
	externs["(*math/big.Int).Cmp"] = func(ex *Exec, f *Frame, call *ssa.Call, args []Value, reach *Term) (Value, *Term) {
		a, b := ex.bigVal(ex.ptr(args[0]).Ref), ex.bigVal(ex.ptr(args[1]).Ref)
		return Ite(Lt(a, b), Int(-1), Ite(Eq(a, b), Int(0), Int(1))), reach
	}
	externs["crypto/rand.Int"] = func(ex *Exec, f *Frame, call *ssa.Call, args []Value, reach *Term) (Value, *Term) {
		ex.usedModel("crypto/rand.Int(rand.Reader, max): error, or a uniformly drawn n with 0 <= n < max (panics if max <= 0)")
		max := ex.bigVal(ex.ptr(args[1]).Ref)
		ex.oblige("pre", "rand.Int: max > 0", reach, Gt(max, Int(0)))
		ok := Fresh("randint.ok", SBool, nil, nil)
		n := Fresh("randint.n", SInt, bi(0), nil)
		ex.assumeGlobal(Lt(n, max))
		ref := ex.newObj()
		ex.setBigVal(And(reach, ok), ref, n)
		e := ex.newErr()
		rt := call.Type().(*types.Tuple).At(0).Type().(*types.Pointer).Elem()
		ex.randInts = append(ex.randInts, n)
		ex.randIntFail = append(ex.randIntFail, And(reach, Not(ok)))
		return TupleV{PtrV{Ref: Ite(ok, ref, Int(0)), T: rt}, IfaceV{Tag: Ite(ok, Int(0), e.Tag), Val: Ite(ok, Int(0), e.Val.(*Term))}}, reach
	}
}
