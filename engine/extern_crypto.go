package main

// crypto/hmac, hash.Hash, crypto/aes, crypto/cipher: objects with ghost state.
// Digests and cipher outputs are abstract octets (uninterpreted); what the models
// fix is exactly what the library relies on: sizes, panics, which buffers are written.

import (
	"go/types"

	"golang.org/x/tools/go/ssa"
)

var hashSizes = map[string]int64{"crypto/md5.New": 16, "crypto/sha1.New": 20, "crypto/sha256.New": 32}

var fnHashSize = DeclFunc("hash.size", []Sort{SInt}, SInt)

func (ex *Exec) hashSize(alg *Term) *Term {
	if c, ok := alg.ConstInt(); ok && int(c) < len(ex.P.funcByID) && ex.P.funcByID[c] != nil {
		if n, ok := hashSizes[ex.P.funcByID[c].String()]; ok {
			return Int(n)
		}
	}
	// symbolic algorithm: case split over the known constructors
	res := App(fnHashSize, bi(1), bi(64), alg)
	for name, n := range hashSizes {
		for id, fn := range ex.P.funcByID {
			if fn != nil && fn.String() == name {
				res = Ite(Eq(alg, Int(int64(id))), Int(n), res)
			}
		}
	}
	return res
}

func init() {
	externs["crypto/hmac.New"] = func(ex *Exec, f *Frame, call *ssa.Call, args []Value, reach *Term) (Value, *Term) {
		ex.usedModel("crypto/hmac.New(h, key): a hash.Hash keyed with a copy of key; Reset/Write/Sum/Size as documented (Write never fails; Sum appends Size() octets)")
		h := args[0].(FuncV)
		key := args[1].(SliceV)
		ref := ex.newObj()
		ex.gwrite("hmac.alg", reach, ref, h.Tag)
		if ex.hmacNewHook != nil {
			ex.hmacNewHook(reach, ref, h.Tag, key)
		}
		return IfaceV{Tag: Int(int64(ex.P.typeIDByName("crypto/hmac.hmac"))), Val: ref}, reach
	}
	hashRef := func(ex *Exec, recv IfaceV) *Term { return ex.boxData(recv) }
	externIface["hash.Hash.Reset"] = func(ex *Exec, f *Frame, call *ssa.Call, recv IfaceV, args []Value, reach *Term) (Value, *Term) {
		if ex.hashResetHook != nil {
			ex.hashResetHook(reach, hashRef(ex, recv))
		}
		return nil, reach
	}
	externIface["hash.Hash.Write"] = func(ex *Exec, f *Frame, call *ssa.Call, recv IfaceV, args []Value, reach *Term) (Value, *Term) {
		p := args[0].(SliceV)
		if ex.hashWriteHook != nil {
			ex.hashWriteHook(reach, hashRef(ex, recv), p)
		}
		return TupleV{p.Len, ex.nilErr()}, reach
	}
	externIface["hash.Hash.Size"] = func(ex *Exec, f *Frame, call *ssa.Call, recv IfaceV, args []Value, reach *Term) (Value, *Term) {
		return ex.hashSize(ex.gread("hmac.alg", hashRef(ex, recv))), reach
	}
	externIface["hash.Hash.Sum"] = func(ex *Exec, f *Frame, call *ssa.Call, recv IfaceV, args []Value, reach *Term) (Value, *Term) {
		ref := hashRef(ex, recv)
		b := args[0].(SliceV)
		if b.Elem == nil {
			b.Elem = types.Typ[types.Byte]
		}
		size := ex.hashSize(ex.gread("hmac.alg", ref))
		src := ex.unknownBytes()
		if ex.hashSumHook != nil {
			src = ex.hashSumHook(reach, ref, size)
		}
		res := ex.appendSlice(reach, b, SliceV{Arr: src, Off: Int(0), Len: size, Cap: size, Elem: b.Elem})
		return res, reach
	}

	externs["crypto/aes.NewCipher"] = func(ex *Exec, f *Frame, call *ssa.Call, args []Value, reach *Term) (Value, *Term) {
		ex.usedModel("crypto/aes.NewCipher(key): error unless len(key) is 16, 24 or 32; otherwise a cipher.Block with BlockSize 16 keyed with a copy of key")
		key := args[0].(SliceV)
		ok := Or(Eq(key.Len, Int(16)), Eq(key.Len, Int(24)), Eq(key.Len, Int(32)))
		ref := ex.newObj()
		ex.gwrite("aes.keylen", reach, ref, key.Len)
		if ex.aesNewHook != nil {
			ex.aesNewHook(reach, ref, key)
		}
		e := ex.newErr()
		tag := Int(int64(ex.P.typeIDByName("crypto/aes.block")))
		return TupleV{IfaceV{Tag: Ite(ok, tag, Int(0)), Val: Ite(ok, ref, Int(0))}, IfaceV{Tag: Ite(ok, Int(0), e.Tag), Val: Ite(ok, Int(0), e.Val.(*Term))}}, reach
	}
	mkCBC := func(dir int64) externFn {
		return func(ex *Exec, f *Frame, call *ssa.Call, args []Value, reach *Term) (Value, *Term) {
			ex.usedModel("crypto/cipher.NewCBCEncrypter/Decrypter(block, iv): panics unless block != nil and len(iv) == 16; CryptBlocks(dst, src) panics unless len(src)%16 == 0 and len(dst) >= len(src), writes dst[:len(src)]")
			blk := args[0].(IfaceV)
			iv := args[1].(SliceV)
			what := ex.exprText(call.Pos(), "call")
			ex.oblige("nil", "cipher block:"+what, reach, Ne(blk.Tag, Int(0)))
			ex.oblige("pre", "len(iv) == BlockSize:"+what, reach, Eq(iv.Len, Int(16)))
			ref := ex.newObj()
			ex.gwrite("cbc.dir", reach, ref, Int(dir))
			ex.gwrite("cbc.block", reach, ref, ex.boxData(blk))
			if ex.cbcNewHook != nil {
				ex.cbcNewHook(reach, ref, ex.boxData(blk), iv, dir)
			}
			return IfaceV{Tag: Int(int64(ex.P.typeIDByName("crypto/cipher.cbc"))), Val: ref}, reach
		}
	}
	externs["crypto/cipher.NewCBCEncrypter"] = mkCBC(1)
	externs["crypto/cipher.NewCBCDecrypter"] = mkCBC(2)
	externIface["cipher.BlockMode.CryptBlocks"] = func(ex *Exec, f *Frame, call *ssa.Call, recv IfaceV, args []Value, reach *Term) (Value, *Term) {
		dst, src := args[0].(SliceV), args[1].(SliceV)
		what := ex.exprText(call.Pos(), "call")
		ex.oblige("pre", "CryptBlocks full blocks:"+what, reach, Eq(EModC(src.Len, bi(16)), Int(0)))
		ex.oblige("pre", "CryptBlocks output fits:"+what, reach, Ge(dst.Len, src.Len))
		out := ex.unknownBytes()
		if ex.cbcCryptHook != nil {
			out = ex.cbcCryptHook(reach, ex.boxData(recv), src)
		}
		ex.mem.Copy(ex.byteKind(), reach, dst.Arr, dst.Off, src.Len, out, Int(0))
		return nil, reach
	}
	externIface["cipher.Block.BlockSize"] = func(ex *Exec, f *Frame, call *ssa.Call, recv IfaceV, args []Value, reach *Term) (Value, *Term) {
		return Int(16), reach
	}
}
