package main

// sort.Slice(x, less) for slices of at most 4 elements: executed as a bubble sort in
// which every comparison is a symbolic call of the less closure and every swap a
// guarded store - i.e. an implementation of the documented contract (the slice ends up
// as a permutation of itself, ordered by less), valid for every input of that size.
// Longer slices leave the verified subset (obligation "at most 4 elements").

import (
	"fmt"
	"go/types"

	"golang.org/x/tools/go/ssa"
)

const sortModelMax = 4

func init() {
	externs["sort.Slice"] = func(ex *Exec, f *Frame, call *ssa.Call, args []Value, reach *Term) (Value, *Term) {
		ex.usedModel("sort.Slice(x, less): x becomes a permutation of itself ordered by less (executed as a sorting network for len(x) <= 4)")
		iv, ok := args[0].(IfaceV)
		if !ok {
			ex.unsupported("sort.Slice of non-interface")
			return nil, reach
		}
		s, ok := iv.Val.(SliceV)
		if !ok {
			if t, ok2 := iv.Val.(*Term); ok2 {
				if bv, ok3 := ex.boxes[t.id]; ok3 {
					s, ok = bv.(SliceV)
				}
			}
		}
		fv, ok2 := args[1].(FuncV)
		if !ok || !ok2 {
			ex.unsupported("sort.Slice: cannot resolve the slice or the less function")
			return nil, reach
		}
		c, isConst := fv.Tag.ConstInt()
		if !isConst || ex.P.funcByID[c] == nil {
			ex.unsupported("sort.Slice: less is not a known closure")
			return nil, reach
		}
		less := ex.P.funcByID[c]
		bs, _ := ex.ghost[fmt.Sprintf("closure:%d", fv.Tag.id)].([]Value)
		ex.oblige("pre", "sort.Slice model covers at most 4 elements:"+ex.exprText(call.Pos(), "call"), reach, Le(s.Len, Int(sortModelMax)))
		kinds := ex.elemKinds(s.Elem)
		if len(kinds) != 1 {
			ex.unsupported("sort.Slice of composite elements")
			return nil, reach
		}
		k := kinds[0]
		for pass := 0; pass < sortModelMax-1; pass++ {
			for b := 0; b+1 < sortModelMax-pass; b++ {
				inr := Lt(Int(int64(b+1)), s.Len)
				g := And(reach, inr)
				if g.IsFalse() {
					continue
				}
				r, _ := ex.callFn(less, append([]Value{Int(int64(b + 1)), Int(int64(b))}, bs...), g)
				lt, _ := r.(*Term)
				if lt == nil {
					ex.unsupported("sort.Slice: less returned no boolean")
					return nil, reach
				}
				sw := And(g, lt)
				va := ex.mem.Read(k, s.Arr, Add(s.Off, Int(int64(b))), -1)
				vb := ex.mem.Read(k, s.Arr, Add(s.Off, Int(int64(b+1))), -1)
				ex.mem.Store(k, sw, s.Arr, Add(s.Off, Int(int64(b))), vb)
				ex.mem.Store(k, sw, s.Arr, Add(s.Off, Int(int64(b+1))), va)
			}
		}
		ex.cur = reach
		return nil, reach
	}
}

var _ = types.Typ
