package main

// C18: frame obligations decided by a data-flow analysis over the same SSA the
// verification conditions are generated from (no SMT needed).
//
// A value is SHARED when it is, or is derived from, package-level state: a global, a
// load through a shared address, a field / element / map entry / sub-slice of a shared
// value, a conversion or interface wrapping of one, a phi of one, or the result of a
// repository function that returns a shared value (fixpoint over the call graph).
// Outside package initialisers the following are violations:
//   F1  a Store / MapUpdate whose target is shared;
//   F2  append / copy / clear / delete whose destination is shared (append writes the
//       spare capacity of its first argument);
//   F3  a shared value passed to a repository function in a parameter position through
//       which that function (transitively) writes;
//   F4  a shared value passed to a function outside the repository that is not on the
//       read-only list below, or a write-capable method invoked on a shared receiver;
//   F5  any use of sync / sync/atomic / goroutines / channels / unsafe in library code
//       (they would need an argument this analysis cannot make: reported as undecided).
// Together with Go's memory model (goroutines that share no written location cannot
// race) F1-F4 give: operations on disjoint arguments do not interfere.

import (
	"fmt"
	"go/types"
	"sort"
	"strings"

	"golang.org/x/tools/go/ssa"
)

type frameAnalysis struct {
	P           *Program
	fns         []*ssa.Function
	retShare    map[*ssa.Function]bool         // returns a shared value
	sharedField map[string]bool                // struct fields into which a shared reference is stored somewhere
	writesP     map[*ssa.Function]map[int]bool // writes through parameter i (incl. receiver = 0)
	shared      map[*ssa.Function]map[ssa.Value]bool
	viol        []string
	undec       []string
	unknownExt  map[string]bool
}

func (P *Program) repoFunctions() []*ssa.Function {
	var out []*ssa.Function
	seen := map[*ssa.Function]bool{}
	var add func(fn *ssa.Function)
	add = func(fn *ssa.Function) {
		if fn == nil || seen[fn] || fn.Blocks == nil {
			return
		}
		seen[fn] = true
		if pos := fn.Pos(); pos.IsValid() {
			file := P.fset.Position(pos).Filename
			if !strings.HasPrefix(file, P.repoDir) || strings.HasSuffix(file, "_test.go") {
				return
			}
			if _, isOverlay := P.overlay[file]; isOverlay {
				return
			}
		} else if !strings.HasPrefix(fn.Name(), "init") {
			return
		}
		out = append(out, fn)
		for _, a := range fn.AnonFuncs {
			add(a)
		}
	}
	var paths []string
	for p := range P.spkgs {
		if P.isRepoPkg(p) {
			paths = append(paths, p)
		}
	}
	sort.Strings(paths)
	for _, p := range paths {
		sp := P.spkgs[p]
		var names []string
		for n := range sp.Members {
			names = append(names, n)
		}
		sort.Strings(names)
		for _, n := range names {
			switch m := sp.Members[n].(type) {
			case *ssa.Function:
				add(m)
			case *ssa.Type:
				for _, t := range []types.Type{m.Type(), types.NewPointer(m.Type())} {
					ms := P.prog.MethodSets.MethodSet(t)
					for i := 0; i < ms.Len(); i++ {
						add(P.prog.MethodValue(ms.At(i)))
					}
				}
			}
		}
	}
	return out
}

func isInitFn(fn *ssa.Function) bool {
	return fn.Name() == "init" || strings.HasPrefix(fn.Name(), "init#") || (fn.Parent() != nil && isInitFn(fn.Parent()))
}

func pointerLike(t types.Type) bool {
	switch t.Underlying().(type) {
	case *types.Pointer, *types.Slice, *types.Map, *types.Interface, *types.Chan, *types.Signature:
		return true
	}
	return false
}

// fieldKey names a struct field independently of the object: shared values are tracked
// through the heap field-based (object-insensitive): once a shared reference is stored
// into field F of any object, every load of F is shared.  (The SA objects hold pointers
// to the registries' singleton descriptors: a method that wrote through such a
// descriptor would interfere across SAs although it never names a global.)
func fieldKey(x *ssa.FieldAddr) string {
	pt, ok := x.X.Type().Underlying().(*types.Pointer)
	if !ok {
		return ""
	}
	return fmt.Sprintf("%s#%d", pt.Elem().String(), x.Field)
}

// computeShared: fixpoint of the "shared" relation inside fn given the current summaries.
func (fa *frameAnalysis) computeShared(fn *ssa.Function) map[ssa.Value]bool {
	sh := map[ssa.Value]bool{}
	changed := true
	mark := func(v ssa.Value) {
		if !sh[v] {
			sh[v] = true
			changed = true
		}
	}
	for changed {
		changed = false
		for _, b := range fn.Blocks {
			for _, ins := range b.Instrs {
				v, ok := ins.(ssa.Value)
				if !ok {
					continue
				}
				is := func(x ssa.Value) bool {
					if _, g := x.(*ssa.Global); g {
						return true
					}
					return sh[x]
				}
				switch x := ins.(type) {
				case *ssa.UnOp:
					if x.Op.String() == "*" && is(x.X) && pointerLike(x.Type()) {
						mark(v) // a reference loaded out of shared memory
					}
					if fad, ok := x.X.(*ssa.FieldAddr); ok && x.Op.String() == "*" && pointerLike(x.Type()) && fa.sharedField[fieldKey(fad)] {
						mark(v) // a reference loaded from a field that is known to hold shared references
					}
				case *ssa.FieldAddr:
					if is(x.X) {
						mark(v)
					}
				case *ssa.IndexAddr:
					if is(x.X) {
						mark(v)
					}
				case *ssa.Field:
					if is(x.X) && pointerLike(x.Type()) {
						mark(v)
					}
					if pointerLike(x.Type()) && fa.sharedField[fmt.Sprintf("%s#%d", x.X.Type().String(), x.Field)] {
						mark(v)
					}
				case *ssa.Index:
					if is(x.X) && pointerLike(x.Type()) {
						mark(v)
					}
				case *ssa.Lookup:
					if is(x.X) && (pointerLike(x.Type()) || x.CommaOk) {
						mark(v)
					}
				case *ssa.Extract:
					if is(x.Tuple) && pointerLike(x.Type()) {
						mark(v)
					}
				case *ssa.Slice:
					if is(x.X) {
						mark(v)
					}
				case *ssa.Phi:
					for _, e := range x.Edges {
						if is(e) {
							mark(v)
						}
					}
				case *ssa.ChangeType:
					if is(x.X) {
						mark(v)
					}
				case *ssa.Convert:
					if is(x.X) && pointerLike(x.Type()) {
						mark(v)
					}
				case *ssa.ChangeInterface:
					if is(x.X) {
						mark(v)
					}
				case *ssa.MakeInterface:
					if is(x.X) && pointerLike(x.X.Type()) {
						mark(v)
					}
				case *ssa.TypeAssert:
					if is(x.X) {
						mark(v)
					}
				case *ssa.Call:
					for _, callee := range fa.callees(x.Common()) {
						if fa.retShare[callee] {
							mark(v)
						}
					}
				}
			}
		}
	}
	return sh
}

// callees of a call site inside the repository (static, or every implementation for an
// interface invoke / every address-taken function of the signature for a dynamic call)
func (fa *frameAnalysis) callees(cc *ssa.CallCommon) []*ssa.Function {
	if cc.IsInvoke() {
		var out []*ssa.Function
		for _, t := range fa.P.implementers(cc.Value.Type()) {
			if sel := fa.P.prog.MethodSets.MethodSet(t).Lookup(cc.Method.Pkg(), cc.Method.Name()); sel != nil {
				if fn := fa.P.prog.MethodValue(sel); fn != nil && fn.Blocks != nil && !fa.isOverlayFn(fn) {
					out = append(out, fn)
				}
			}
		}
		return out
	}
	switch v := cc.Value.(type) {
	case *ssa.Function:
		return []*ssa.Function{v}
	case *ssa.MakeClosure:
		return []*ssa.Function{v.Fn.(*ssa.Function)}
	case *ssa.Builtin:
		return nil
	}
	if sig, ok := cc.Value.Type().Underlying().(*types.Signature); ok {
		return fa.P.funcsWithSig(sig)
	}
	return nil
}

func (fa *frameAnalysis) where(fn *ssa.Function, ins ssa.Instruction) string {
	pos := fa.P.fset.Position(ins.Pos())
	file := strings.TrimPrefix(pos.Filename, fa.P.repoDir+"/")
	return fmt.Sprintf("%s (%s:%d)", fnName(fn), file, pos.Line)
}

// run computes the summaries to a fixpoint and collects the violations.
func (fa *frameAnalysis) run() {
	fa.fns = fa.P.repoFunctions()
	fa.retShare = map[*ssa.Function]bool{}
	fa.sharedField = map[string]bool{}
	fa.writesP = map[*ssa.Function]map[int]bool{}
	inRepo := map[*ssa.Function]bool{}
	for _, fn := range fa.fns {
		inRepo[fn] = true
		fa.writesP[fn] = map[int]bool{}
	}
	// derivedFrom[param index] inside fn: values derived from that parameter
	derive := func(fn *ssa.Function, root ssa.Value) map[ssa.Value]bool {
		d := map[ssa.Value]bool{root: true}
		ch := true
		for ch {
			ch = false
			for _, b := range fn.Blocks {
				for _, ins := range b.Instrs {
					v, ok := ins.(ssa.Value)
					if !ok || d[v] {
						continue
					}
					hit := false
					switch x := ins.(type) {
					case *ssa.UnOp:
						hit = x.Op.String() == "*" && d[x.X] && pointerLike(x.Type())
					case *ssa.FieldAddr:
						hit = d[x.X]
					case *ssa.IndexAddr:
						hit = d[x.X]
					case *ssa.Field:
						hit = d[x.X] && pointerLike(x.Type())
					case *ssa.Index:
						hit = d[x.X] && pointerLike(x.Type())
					case *ssa.Lookup:
						hit = d[x.X] && pointerLike(x.Type())
					case *ssa.Slice:
						hit = d[x.X]
					case *ssa.Phi:
						for _, e := range x.Edges {
							hit = hit || d[e]
						}
					case *ssa.ChangeType:
						hit = d[x.X]
					case *ssa.ChangeInterface:
						hit = d[x.X]
					case *ssa.MakeInterface:
						hit = d[x.X] && pointerLike(x.X.Type())
					case *ssa.TypeAssert:
						hit = d[x.X]
					case *ssa.Extract:
						hit = d[x.Tuple] && pointerLike(x.Type())
					}
					if hit {
						d[v] = true
						ch = true
					}
				}
			}
		}
		return d
	}
	// writes performed by an instruction: the written "destination" values
	writeTargets := func(ins ssa.Instruction) []ssa.Value {
		switch x := ins.(type) {
		case *ssa.Store:
			return []ssa.Value{x.Addr}
		case *ssa.MapUpdate:
			return []ssa.Value{x.Map}
		case *ssa.Call:
			if b, ok := x.Call.Value.(*ssa.Builtin); ok {
				switch b.Name() {
				case "append", "copy", "clear", "delete":
					return []ssa.Value{x.Call.Args[0]}
				}
			}
		}
		return nil
	}
	changed := true
	for iter := 0; changed && iter < 50; iter++ {
		changed = false
		for _, fn := range fa.fns {
			// (a) writes through parameters
			for pi, p := range fn.Params {
				if fa.writesP[fn][pi] || !pointerLike(p.Type()) {
					continue
				}
				d := derive(fn, p)
				w := false
				for _, b := range fn.Blocks {
					for _, ins := range b.Instrs {
						for _, t := range writeTargets(ins) {
							if d[t] {
								w = true
							}
						}
						if c, ok := ins.(*ssa.Call); ok {
							cc := c.Common()
							args := cc.Args
							if cc.IsInvoke() {
								args = append([]ssa.Value{cc.Value}, args...)
							}
							cs := fa.callees(cc)
							for ai, a := range args {
								if !d[a] {
									continue
								}
								if len(cs) == 0 {
									if _, isB := cc.Value.(*ssa.Builtin); !isB && !fa.externalReadOnly(cc, ai) {
										w = true
									}
								}
								for _, callee := range cs {
									if inRepo[callee] && fa.writesP[callee][ai] {
										w = true
									}
									if !inRepo[callee] && !fa.externalReadOnly(cc, ai) {
										w = true
									}
								}
							}
						}
					}
				}
				if w {
					fa.writesP[fn][pi] = true
					changed = true
				}
			}
			// (c) stores a shared reference into a field of some object
			if !isInitFn(fn) {
				sh := fa.computeShared(fn)
				for _, b := range fn.Blocks {
					for _, ins := range b.Instrs {
						st, ok := ins.(*ssa.Store)
						if !ok || !pointerLike(st.Val.Type()) {
							continue
						}
						_, g := st.Val.(*ssa.Global)
						if !g && !sh[st.Val] {
							continue
						}
						if fad, ok := st.Addr.(*ssa.FieldAddr); ok {
							if k := fieldKey(fad); k != "" && !fa.sharedField[k] {
								fa.sharedField[k] = true
								changed = true
							}
						}
					}
				}
			}
			// (b) returns a shared value
			if !fa.retShare[fn] {
				sh := fa.computeShared(fn)
				for _, b := range fn.Blocks {
					for _, ins := range b.Instrs {
						if r, ok := ins.(*ssa.Return); ok {
							for _, rv := range r.Results {
								_, g := rv.(*ssa.Global)
								if (g || sh[rv]) && pointerLike(rv.Type()) {
									fa.retShare[fn] = true
									changed = true
								}
							}
						}
					}
				}
			}
		}
	}
	// violations
	for _, fn := range fa.fns {
		if isInitFn(fn) {
			continue
		}
		sh := fa.computeShared(fn)
		is := func(x ssa.Value) bool {
			if _, g := x.(*ssa.Global); g {
				return true
			}
			return sh[x]
		}
		for _, b := range fn.Blocks {
			for _, ins := range b.Instrs {
				for _, t := range writeTargets(ins) {
					if is(t) {
						fa.viol = append(fa.viol, "write to package-level state in "+fa.where(fn, ins))
					}
				}
				switch x := ins.(type) {
				case *ssa.Go:
					fa.undec = append(fa.undec, "goroutine started in "+fa.where(fn, ins))
				case *ssa.Send, *ssa.Select, *ssa.MakeChan:
					fa.undec = append(fa.undec, "channel operation in "+fa.where(fn, ins))
				case *ssa.Call:
					cc := x.Common()
					if sf, ok := cc.Value.(*ssa.Function); ok && sf.Pkg != nil {
						pp := sf.Pkg.Pkg.Path()
						if pp == "sync" || pp == "sync/atomic" || pp == "unsafe" {
							fa.undec = append(fa.undec, "use of "+pp+" in "+fa.where(fn, ins))
						}
					}
					if cc.IsInvoke() {
						if n, ok := cc.Value.Type().(*types.Named); ok && n.Obj().Pkg() != nil && n.Obj().Pkg().Path() == "sync" {
							fa.undec = append(fa.undec, "use of sync in "+fa.where(fn, ins))
						}
					}
					args := cc.Args
					if cc.IsInvoke() {
						args = append([]ssa.Value{cc.Value}, args...)
					}
					cs := fa.callees(cc)
					for ai, a := range args {
						if !is(a) || !pointerLike(a.Type()) {
							continue
						}
						if _, isB := cc.Value.(*ssa.Builtin); isB {
							continue
						}
						if len(cs) == 0 && !fa.externalReadOnly(cc, ai) {
							fa.viol = append(fa.viol, fmt.Sprintf("package-level state passed to %s (argument %d), which is not known to be read-only, in %s", calleeName(cc), ai, fa.where(fn, ins)))
						}
						for _, callee := range cs {
							if inRepo[callee] && fa.writesP[callee][ai] {
								fa.viol = append(fa.viol, fmt.Sprintf("package-level state passed to %s, which writes through parameter %d, in %s", fnName(callee), ai, fa.where(fn, ins)))
							}
							if !inRepo[callee] && !fa.externalReadOnly(cc, ai) {
								fa.viol = append(fa.viol, fmt.Sprintf("package-level state passed to %s (argument %d), which is not known to be read-only, in %s", calleeName(cc), ai, fa.where(fn, ins)))
							}
						}
					}
				}
			}
		}
	}
	// F6: input byte slices are read-only.  No function of the library writes through a
	// []byte parameter (not even into its spare capacity), except the two padding /
	// encryption helpers that are documented to extend the plaintext buffer they are
	// given.  This is what makes read-only sharing of one input buffer between
	// concurrent operations safe.
	for _, fn := range fa.fns {
		for pi, p := range fn.Params {
			sl, ok := p.Type().Underlying().(*types.Slice)
			if !ok || !types.Identical(sl.Elem(), types.Typ[types.Byte]) || !fa.writesP[fn][pi] {
				continue
			}
			key := fmt.Sprintf("%s#%s", fnName(fn), p.Name())
			if frameInputWriters[key] {
				continue
			}
			fa.viol = append(fa.viol, fmt.Sprintf("input byte slice %q is written (possibly in its spare capacity) in %s (%s)", p.Name(), fnName(fn), fa.posOf(fn)))
		}
	}
	sort.Strings(fa.viol)
	sort.Strings(fa.undec)
}

// the only functions allowed to write through a []byte parameter: they pad the
// plaintext buffer they are handed in place (its spare capacity), which is their
// documented behaviour; their callers pass buffers they own
var frameInputWriters = map[string]bool{
	"security/lib.PKCS7Padding#plainText":                 true,
	"(*security/encr.EncrAesCbcCrypto).Encrypt#plainText": true,
	"ike.encryptPayload#plainText":                        true,
}

func (fa *frameAnalysis) posOf(fn *ssa.Function) string {
	pos := fa.P.fset.Position(fn.Pos())
	return fmt.Sprintf("%s:%d", strings.TrimPrefix(pos.Filename, fa.P.repoDir+"/"), pos.Line)
}

func calleeName(cc *ssa.CallCommon) string {
	if cc.IsInvoke() {
		return cc.Value.Type().String() + "." + cc.Method.Name()
	}
	if f, ok := cc.Value.(*ssa.Function); ok {
		return f.String()
	}
	return cc.Value.String()
}

// frameExternalWrites: for functions / interface methods outside the repository, the
// argument positions (receiver = 0 for methods and interface invokes) they write
// through.  A callee that is not listed is assumed to write every argument.
var frameExternalWrites = map[string][]int{
	"(encoding/binary.bigEndian).Uint16": {}, "(encoding/binary.bigEndian).Uint32": {}, "(encoding/binary.bigEndian).Uint64": {},
	"(encoding/binary.bigEndian).PutUint16": {1}, "(encoding/binary.bigEndian).PutUint32": {1}, "(encoding/binary.bigEndian).PutUint64": {1},
	"encoding/binary.Write": {0}, "(*bytes.Buffer).Bytes": {}, "bytes.NewReader": {}, "bufio.NewReader": {}, "(*bufio.Reader).ReadByte": {0},
	"io.ReadFull": {1}, "crypto/rand.Read": {0}, "crypto/rand.Int": {},
	"crypto/hmac.New": {}, "crypto/hmac.Equal": {}, "bytes.Equal": {}, "crypto/aes.NewCipher": {},
	"crypto/cipher.NewCBCEncrypter": {}, "crypto/cipher.NewCBCDecrypter": {},
	"crypto/cipher.BlockMode.CryptBlocks": {0, 1}, "crypto/cipher.Block.BlockSize": {},
	"hash.Hash.Write": {0}, "hash.Hash.Sum": {1}, "hash.Hash.Reset": {0}, "hash.Hash.Size": {}, "hash.Hash.BlockSize": {},
	"io.Reader.Read":      {1},
	"(*math/big.Int).Exp": {0}, "(*math/big.Int).Cmp": {}, "(*math/big.Int).Bytes": {}, "(*math/big.Int).String": {}, "(*math/big.Int).Sign": {}, "(*math/big.Int).BitLen": {},
	"(*math/big.Int).SetBytes": {0}, "(*math/big.Int).SetString": {0}, "(*math/big.Int).SetUint64": {0}, "math/big.NewInt": {},
	"(*math/big.Int).Add": {0}, "(*math/big.Int).Sub": {0}, "(*math/big.Int).Mul": {0}, "(*math/big.Int).Mod": {0}, "(*math/big.Int).Lsh": {0}, "(*math/big.Int).Rsh": {0}, "(*math/big.Int).Set": {0}, "(*math/big.Int).SetInt64": {0},
	"fmt.Sprintf": {}, "fmt.Errorf": {}, "fmt.Sprint": {}, "fmt.Println": {}, "fmt.Printf": {},
	"github.com/pkg/errors.Errorf": {}, "github.com/pkg/errors.Wrapf": {}, "github.com/pkg/errors.New": {}, "github.com/pkg/errors.Wrap": {}, "errors.New": {},
	"strconv.Itoa": {}, "strconv.FormatUint": {}, "strconv.FormatInt": {}, "encoding/hex.EncodeToString": {}, "encoding/hex.Dump": {},
	"sort.Slice": {0}, "strings.Repeat": {}, "net.ParseIP": {}, "(net.IP).To4": {}, "(net.IP).String": {},
	"(error).Error": {}, "error.Error": {},
}

// externalReadOnly: the callee is outside the repository and does not write argument ai.
func (fa *frameAnalysis) externalReadOnly(cc *ssa.CallCommon, ai int) bool {
	name := calleeName(cc)
	if cc.IsInvoke() {
		name = strings.TrimPrefix(cc.Value.Type().String(), "*") + "." + cc.Method.Name()
	} else if f, ok := cc.Value.(*ssa.Function); ok {
		name = f.String()
	}
	w, known := frameExternalWrites[name]
	if !known {
		if fa.unknownExt == nil {
			fa.unknownExt = map[string]bool{}
		}
		fa.unknownExt[name] = true
		return false
	}
	for _, i := range w {
		if i == ai {
			return false
		}
	}
	return true
}

func init() {
	propMeta["C18"] = propInfo{
		level: "other",
		explanation: "Frame analysis over go/ssa of every non-test function of the library: no write, append, copy or map update whose target is (derived from) package-level state outside the package initialisers, no such state passed to a repository function that writes through that parameter or to an external function not on the read-only list; no function writes through a []byte parameter (not even its spare capacity) except the two padding helpers documented to extend the plaintext they are given - so input buffers may be shared read-only; no goroutines, channels, sync, atomic or unsafe in library code. " +
			"With the frame conditions proved for the individual operations (decoders own their output, encoders return fresh buffers, SA operations touch only the SA passed in) this gives: operations that share no message and no SA object write disjoint memory, hence cannot race and return what they return alone. The schedule quantifier itself is not explored.",
		assumptions: []string{
			"Go memory model: goroutines that write no common location do not race",
			"crypto/rand.Reader, math/big read-only operations (Exp, Cmp, Bytes) and map lookups are safe for concurrent use",
			"the standard-library functions on the read-only list do not write their arguments",
			"no thread interleaving is executed: the property's schedule quantifier is replaced by the sufficient frame condition",
		},
		extra: func(P *Program) []ExtraObl {
			fa := &frameAnalysis{P: P}
			fa.run()
			var out []ExtraObl
			nfn := 0
			_ = nfn
			for _, fn := range fa.fns {
				if !isInitFn(fn) {
					nfn++
				}
			}
			o := ExtraObl{Name: "frame#no-write-to-package-level-state", Class: "frame", OK: len(fa.viol) == 0, Detail: strings.Join(fa.viol, "; ")}
			out = append(out, o)
			o2 := ExtraObl{Name: "frame#no-concurrency-primitives-in-library-code", Class: "frame", OK: len(fa.undec) == 0, Detail: strings.Join(fa.undec, "; ")}
			out = append(out, o2)
			// one obligation per function, so that the evidence shows what was covered
			for _, fn := range fa.fns {
				if isInitFn(fn) {
					continue
				}
				ok := true
				var det []string
				for _, v := range fa.viol {
					if strings.Contains(v, " in "+fnName(fn)+" (") {
						ok = false
						det = append(det, v)
					}
				}
				out = append(out, ExtraObl{Name: "frame:" + fnName(fn), Class: "frame", OK: ok, Detail: strings.Join(det, "; ")})
			}
			return out
		},
	}
}

// isOverlayFn: fn is defined in a contract / lemma file of /verif (not library code).
func (fa *frameAnalysis) isOverlayFn(fn *ssa.Function) bool {
	if !fn.Pos().IsValid() {
		return false
	}
	_, ok := fa.P.overlay[fa.P.fset.Position(fn.Pos()).Filename]
	return ok
}
