package main

import (
	"sort"
	"strings"
)

// Frame conditions ("assigns" clauses) inside lemmas.
//
//	mark := verifFrameBegin()
//	verifFrameAllow(mark, obj)        // obj: pointer, slice or map that may be written
//	verifFrameAllowKind(mark, "hmac.") // ghost / field kinds (substring) that may be written
//	... code under contract ...
//	verifFrameEnd(mark, "Cxx/label")
//
// Between Begin and End every write the executor records - a store, a copy, the havoc
// of a cut loop or of a summarised call - must go to an object allocated after Begin
// or to one of the allowed objects.  The obligations are collected per memory kind
// (struct field, element type, ghost component), so a write to a field that did not
// exist when the lemma was written is covered as well: the frame is "nothing else",
// not a list of the fields known today.  End emits one obligation per kind written in
// a pre-existing object: <label> [<kind>].
type frameMark struct {
	water   *Term
	allowed []*Term
	kinds   []string
	goals   map[string]*Term
	open    bool
}

func (ex *Exec) frameNote(k *kindInfo, guard, ref, n *Term) {
	if ex.specDepth > 0 {
		return
	}
	for _, fm := range ex.frameMarks {
		if !fm.open || fm.exempt(k.name) {
			continue
		}
		alts := []*Term{Gt(ref, fm.water)}
		for _, a := range fm.allowed {
			alts = append(alts, Eq(ref, a))
		}
		fm.add(k.name, Implies(And(guard, Gt(n, Int(0))), Or(alts...)))
	}
}

func (ex *Exec) frameHavoc(k *kindInfo, guard, water *Term) {
	if ex == nil || ex.specDepth > 0 {
		return
	}
	for _, fm := range ex.frameMarks {
		if !fm.open || fm.exempt(k.name) {
			continue
		}
		if water == nil {
			fm.add(k.name, Not(guard))
		} else {
			fm.add(k.name, Implies(guard, Ge(water, fm.water)))
		}
	}
}

func (fm *frameMark) exempt(kind string) bool {
	for _, s := range fm.kinds {
		if strings.Contains(kind, s) {
			return true
		}
	}
	return false
}

func (fm *frameMark) add(kind string, g *Term) {
	if g.IsTrue() {
		return
	}
	if old, ok := fm.goals[kind]; ok {
		fm.goals[kind] = And(old, g)
	} else {
		fm.goals[kind] = g
	}
}

func (ex *Exec) frameBegin() int {
	ex.frameMarks = append(ex.frameMarks, &frameMark{water: ex.ctr(), goals: map[string]*Term{}, open: true})
	return len(ex.frameMarks) - 1
}

func (ex *Exec) frameEnd(i int, label string, reach *Term) {
	fm := ex.frameMarks[i]
	fm.open = false
	var kinds []string
	for k := range fm.goals {
		kinds = append(kinds, k)
	}
	sort.Strings(kinds)
	// always at least one obligation, so that the frame shows up in the evidence
	ex.oblige("assert", label, reach, True())
	for _, k := range kinds {
		ex.oblige("assert", label+" ["+k+"]", reach, fm.goals[k])
	}
}

func frameRefOf(v Value) *Term {
	switch d := v.(type) {
	case IfaceV:
		return frameRefOf(d.Val)
	case PtrV:
		return d.Ref
	case SliceV:
		return d.Arr
	case *Term:
		return d
	}
	return nil
}
