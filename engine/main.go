package main

import (
	"runtime/pprof"
	"time"
	"flag"
	"fmt"
	"os"
	"strings"

	"golang.org/x/tools/go/ssa"
)

func findFunction(P *Program, spec string) *ssa.Function {
	// spec: pkgpath-suffix.Func  or pkgpath-suffix.(*T).Method / pkg.T.Method
	for path, sp := range P.spkgs {
		if !P.isRepoPkg(path) {
			continue
		}
		short := strings.TrimPrefix(strings.TrimPrefix(path, repoMod), "/")
		if short == "" {
			short = "ike"
		}
		if !strings.HasPrefix(spec, short+".") {
			continue
		}
		rest := strings.TrimPrefix(spec, short+".")
		if fn := sp.Func(rest); fn != nil {
			return fn
		}
		if i := strings.Index(rest, "."); i > 0 {
			tn := strings.Trim(rest[:i], "(*)")
			if fn := P.findMethod(path, tn, rest[i+1:]); fn != nil {
				return fn
			}
		}
	}
	return nil
}

func main() {
	repo := flag.String("repo", "/repo", "repository working tree")
	contracts := flag.String("contracts", "/verif/contracts", "overlay directory")
	timeout := flag.Int("timeout", 10000, "per-obligation solver timeout (ms)")
	verbose := flag.Bool("v", false, "verbose")
	flag.Parse()
	args := flag.Args()
	if len(args) == 0 {
		fmt.Println("usage: ikeverif [flags] verify <fn>... | check <prop> <tier>")
		os.Exit(2)
	}
	defer cleanupScratch()
	if pf := os.Getenv("IKEVERIF_PROF"); pf != "" {
		f, _ := os.Create(pf)
		pprof.StartCPUProfile(f)
		go func() {
			time.Sleep(25 * time.Second)
			pprof.StopCPUProfile()
			f.Close()
			fmt.Println("profile written")
			os.Exit(9)
		}()
	}
	P, err := LoadProgram(*repo, *contracts)
	if err != nil {
		fmt.Fprintln(os.Stderr, "load:", err)
		os.Exit(3)
	}
	if err := P.RunInit(); err != nil {
		fmt.Fprintln(os.Stderr, err)
		os.Exit(3)
	}
	opts := VerifyOpts{TimeoutMs: *timeout, Workers: envInt("IKEVERIF_WORKERS", 12), Verbose: *verbose}
	switch args[0] {
	case "verify":
		for _, spec := range args[1:] {
			fn := findFunction(P, spec)
			if fn == nil {
				fmt.Println("no such function:", spec)
				continue
			}
			r := P.VerifyFunction(fn, nil, opts)
			r.Print(*verbose)
		}
	case "dump":
		for _, spec := range args[1:] {
			if fn := findFunction(P, spec); fn != nil {
				fn.WriteTo(os.Stdout)
			}
		}
	}
}

var dumpQueries = os.Getenv("IKEVERIF_DUMP")

func envInt(name string, def int) int {
	if s := os.Getenv(name); s != "" {
		var n int
		if _, err := fmt.Sscanf(s, "%d", &n); err == nil {
			return n
		}
	}
	return def
}
