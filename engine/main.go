package main

import (
	"encoding/json"
	"flag"
	"fmt"
	"os"
	"runtime"
	"runtime/debug"
	"runtime/pprof"
	"strings"
	"time"

	"golang.org/x/tools/go/ssa"
)

func findFunction(P *Program, spec string) *ssa.Function {
	// spec: pkgpath-suffix.Func  or pkgpath-suffix.(*T).Method / pkg.T.Method
	for path, sp := range P.spkgs {
		if !P.isRepoPkg(path) {
			continue
		}
		short := strings.TrimPrefix(strings.TrimPrefix(path, repoMod), "/")
		if short == "" {
			short = "ike"
		}
		if !strings.HasPrefix(spec, short+".") {
			continue
		}
		rest := strings.TrimPrefix(spec, short+".")
		if fn := sp.Func(rest); fn != nil {
			return fn
		}
		if i := strings.Index(rest, "."); i > 0 {
			tn := strings.Trim(rest[:i], "(*)")
			if fn := P.findMethod(path, tn, rest[i+1:]); fn != nil {
				return fn
			}
		}
	}
	return nil
}

func main() {
	repo := flag.String("repo", "/repo", "repository working tree")
	contracts := flag.String("contracts", "/verif/contracts", "overlay directory")
	timeout := flag.Int("timeout", 10000, "per-obligation solver timeout (ms)")
	verbose := flag.Bool("v", false, "verbose")
	verifDir := flag.String("verif", "/verif", "verification directory (evidence, replays, known findings)")
	flag.Parse()
	args := flag.Args()
	if len(args) == 0 {
		fmt.Println("usage: ikeverif [flags] verify <fn>... | check <prop> <tier>")
		os.Exit(2)
	}
	defer cleanupScratch()
	maxSec := 900
	if args[0] == "check" {
		maxSec = 3000 // the lemma processes have their own (smaller) budgets
	}
	maxHeap := envInt("IKEVERIF_MAXHEAP_MB", 12000)
	// soft limit well below the budget: the collector works harder before the heap gets
	// near it, so that garbage alone never ends a run
	debug.SetMemoryLimit(int64(maxHeap) * 2 / 3 << 20)
	go watchdog(maxHeap, envInt("IKEVERIF_MAXSEC", maxSec))
	if pf := os.Getenv("IKEVERIF_PROF"); pf != "" {
		f, _ := os.Create(pf)
		pprof.StartCPUProfile(f)
		go func() {
			time.Sleep(25 * time.Second)
			pprof.StopCPUProfile()
			f.Close()
			fmt.Println("profile written")
			os.Exit(9)
		}()
	}
	P, err := LoadProgram(*repo, *contracts)
	if err != nil {
		fmt.Fprintln(os.Stderr, "load:", err)
		os.Exit(3)
	}
	if err := P.RunInit(); err != nil {
		fmt.Fprintln(os.Stderr, err)
		os.Exit(3)
	}
	opts := VerifyOpts{TimeoutMs: *timeout, Workers: envInt("IKEVERIF_WORKERS", 12), Verbose: *verbose}
	switch args[0] {
	case "verify":
		for _, spec := range args[1:] {
			fn := findFunction(P, spec)
			if fn == nil {
				fmt.Println("no such function:", spec)
				continue
			}
			cfg := newRunCfg()
			P.applyLemmaConfig(fn, cfg)
			r := P.VerifyFunction(fn, cfg, opts)
			r.Print(*verbose)
		}
	case "lemma":
		// lemma <pkgpath.fn> <out.json>
		spec := args[1]
		i := strings.LastIndex(spec, ".")
		fn := P.findFunc(spec[:i], spec[i+1:])
		if fn == nil {
			fmt.Println("no such lemma:", spec)
			os.Exit(3)
		}
		lj := runLemma(P, fn, opts, false)
		b, _ := json.MarshalIndent(lj, "", " ")
		os.WriteFile(args[2], b, 0o644)
	case "concretize":
		// concretize <pkgpath.fn> <obligation> <out.json>
		spec := args[1]
		i := strings.LastIndex(spec, ".")
		fn := P.findFunc(spec[:i], spec[i+1:])
		if fn == nil {
			fmt.Println("no such lemma:", spec)
			os.Exit(3)
		}
		rf := &ReplayFile{Obligation: baseName(args[2]), Lemma: fn.Name(), Package: fn.Pkg.Pkg.Path()}
		ra, k, out := P.concretize(fn, args[2], opts)
		if ra != nil || (len(fn.Params) == 0 && out != "") {
			rf.Args, rf.Unrolled = ra, k
			P.RunReplay(rf)
		} else {
			rf.Status = "no-failing-input-found"
			rf.Note = "no parameter assignment reaching the violated obligation within 3 loop iterations was found"
		}
		if rf.Status != "confirmed" {
			// the lemma is executable: search boundary-biased random inputs for one that
			// makes this assertion fail on the real code
			cfg := newRunCfg()
			P.applyLemmaConfig(fn, cfg)
			cases := 300000
			if *timeout > 30000 {
				cases = 5000000
			}
			lastSearchCompleted = false
			sa := P.searchInput(fn, args[2], cfg, cases, envInt("VERIF_SEED", 1))
			if lastSearchCompleted {
				rf.SearchCases = cases
			}
			if sa != nil {
				rf2 := &ReplayFile{Obligation: rf.Obligation, Lemma: rf.Lemma, Package: rf.Package, Args: sa}
				P.RunReplay(rf2)
				if rf2.Status == "confirmed" {
					rf2.Note = "input found by the seeded random / boundary search over the executable lemma function (the solver's refutation gave no usable input)"
					rf2.SolverOutput = rf.SolverOutput
					rf = rf2
				}
			}
		}
		b, _ := json.MarshalIndent(rf, "", " ")
		os.WriteFile(args[3], b, 0o644)
	case "replay":
		b, err := os.ReadFile(args[1])
		if err != nil {
			fmt.Println(err)
			os.Exit(2)
		}
		var rf ReplayFile
		json.Unmarshal(b, &rf)
		if rf.Lemma == "" {
			fmt.Println("replay file carries no input (", rf.Status, "):", rf.Note)
			fmt.Println(rf.SolverOutput)
			os.Exit(1)
		}
		P.RunReplay(&rf)
		fmt.Printf("replay %s: %s %s\n", rf.Obligation, rf.Status, rf.Observed)
		if rf.Status == "confirmed" {
			os.Exit(1)
		}
	case "check":
		code := checkProperty(P, *verifDir, args[1], args[2], opts)
		cleanupScratch()
		os.Exit(code)
	case "dump":
		for _, spec := range args[1:] {
			if fn := findFunction(P, spec); fn != nil {
				fn.WriteTo(os.Stdout)
			}
		}
	}
}

var dumpQueries = os.Getenv("IKEVERIF_DUMP")

func envInt(name string, def int) int {
	if s := os.Getenv(name); s != "" {
		var n int
		if _, err := fmt.Sscanf(s, "%d", &n); err == nil {
			return n
		}
	}
	return def
}

// watchdog ends a run that outgrows its budget (a query that needs this much is
// not one to be claimed).
func watchdog(maxMB, maxSec int) {
	t0 := time.Now()
	for {
		time.Sleep(500 * time.Millisecond)
		var ms runtime.MemStats
		runtime.ReadMemStats(&ms)
		if int(ms.HeapAlloc>>20) > maxMB {
			// HeapAlloc counts garbage that has not been collected yet: the budget is about
			// what the run needs, so collect and look again before giving up
			runtime.GC()
			runtime.ReadMemStats(&ms)
		}
		if int(ms.HeapAlloc>>20) > maxMB || int(time.Since(t0).Seconds()) > maxSec {
			fmt.Fprintf(os.Stderr, "ikeverif: budget exceeded (heap %d MB, %ds)\n", ms.HeapAlloc>>20, int(time.Since(t0).Seconds()))
			cleanupScratch()
			os.Exit(4)
		}
	}
}
