package main

// Symbolic values and the heap.
//
// The heap is a set of logs, one per "kind" (struct field / slice element type /
// scalar cell; component suffixes for multi-word values).  A log is an ordered
// list of guarded updates; a read is expanded into an ite-chain over the log
// (read-over-write), so loop-free verification conditions stay quantifier free.

import (
	"fmt"
	"go/types"
	"math/big"
	"os"
	"regexp"
	"strings"
)

type Value interface{}

// SliceV is a Go slice: backing array object, offset into it, len, cap.
type SliceV struct {
	Arr, Off, Len, Cap *Term
	Elem               types.Type
}

// StrV is a Go string (immutable bytes in kind "[]byte").
type StrV struct {
	Arr, Off, Len *Term
	Lit           *string
}

// IfaceV is an interface value: dynamic type tag (0 = nil) and payload.
type IfaceV struct {
	Tag *Term
	Val Value // *Term for pointer / scalar payloads, or a composite Value
}

// PtrV is an address: base kind (path), object reference, optional element index.
type PtrV struct {
	Base string
	Ref  *Term
	Idx  *Term
	T    types.Type // pointee type
}

type StructV struct {
	T      types.Type
	Fields []Value
}

type TupleV []Value

// FuncV is a function value: tag identifies the function among address-taken ones.
type FuncV struct {
	Tag *Term
}

var pow48 = pow2(48)

const (
	eStore = iota
	eCopy
	eZero    // object ref freshly allocated: every cell of it reads 0 / false
	eHavoc   // all cells (of refs > water, if water != nil) become unknown
	eLit     // string literal object
	eBytesOf // read-only storage of an abstract byte-string value: cell j reads bat(val, j)
)

type MemEntry struct {
	typ   int
	guard *Term
	ref   *Term
	idx   *Term
	val   *Term
	// copy
	n       *Term
	src     *Term
	srcOff  *Term
	srcUpto int
	// havoc: cells of objects with water < ref <= ctr (objects that exist when the
	// havoc happens; water == nil: no lower limit) become unknown
	base  *FuncDecl
	water *Term
	ctr   *Term
	// literal
	lit    string
	origin string
}

type kindInfo struct {
	name  string
	sort  Sort
	lo    *big.Int
	hi    *big.Int
	isRef bool
	base0 *FuncDecl
	log   []MemEntry
}

type Mem struct {
	kinds map[string]*kindInfo
	cache map[string]*Term
	ex    *Exec
}

func newMem(ex *Exec) *Mem {
	return &Mem{kinds: map[string]*kindInfo{}, cache: map[string]*Term{}, ex: ex}
}

func (m *Mem) clone(ex *Exec) *Mem {
	n := newMem(ex)
	for k, ki := range m.kinds {
		c := *ki
		c.log = append([]MemEntry(nil), ki.log...)
		n.kinds[k] = &c
	}
	return n
}

func (m *Mem) kind(name string, sort Sort, lo, hi *big.Int, isRef bool) *kindInfo {
	if k, ok := m.kinds[name]; ok {
		return k
	}
	k := &kindInfo{name: name, sort: sort, lo: lo, hi: hi, isRef: isRef}
	k.base0 = DeclFunc("H0_"+name, []Sort{SInt, SInt}, sort)
	m.kinds[name] = k
	return k
}

func zeroOf(s Sort) *Term {
	if s == SBool {
		return False()
	}
	return Int(0)
}

// Read returns the content of cell (kind, ref, idx) considering the first upto
// entries of the log (upto < 0: all).
var readDepth int
var readWarned int

func (m *Mem) Read(k *kindInfo, ref, idx *Term, upto int) *Term {
	readCount++
	readDepth++
	defer func() { readDepth-- }()
	if traceCalls && readDepth > 5 && readWarned < 5 {
		readWarned++
		fmt.Fprintf(os.Stderr, "DEEP READ kind=%s depth=%d ref=%s idx=%s\n", k.name, readDepth, ref.StringLimit(300), idx.StringLimit(200))
	}
	if upto < 0 || upto > len(k.log) {
		upto = len(k.log)
	}
	cur := m.ex.cur
	curID := 0
	if cur != nil {
		curID = cur.id
		ref = m.underCur(cur, ref, 0)
		idx = m.underCur(cur, idx, 0)
	}
	key := fmt.Sprintf("%s|%d|%d|%d|%d", k.name, ref.id, idx.id, upto, curID)
	if t, ok := m.cache[key]; ok {
		return t
	}
	// a choice between arrays: read each alternative (each resolves syntactically, and
	// after an append both alternatives hold the same contents, so the ite collapses)
	if ref.op == "ite" && refLeafCount(ref, 0) > 0 {
		a := m.Read(k, ref.args[1], idx, upto)
		b := m.Read(k, ref.args[2], idx, upto)
		res := m.underCur(cur, Ite(ref.args[0], a, b), 0)
		m.cache[key] = res
		return res
	}
	type pend struct {
		cond *Term
		val  *Term
	}
	var chain []pend
	var tail *Term
	refNonPos := ref.hi != nil && ref.hi.Sign() <= 0
	for i := upto - 1; i >= 0 && tail == nil; i-- {
		e := &k.log[i]
		var cond, val *Term
		if refNonPos && e.ref != nil && e.ref.lo != nil && e.ref.lo.Sign() >= 0 {
			// the two references can only coincide as nil, and nil is never written
			continue
		}
		switch e.typ {
		case eStore:
			re := Eq(ref, e.ref)
			if re.IsFalse() {
				continue
			}
			ie := Eq(idx, e.idx)
			if ie.IsFalse() {
				continue
			}
			cond = And(m.guardUnder(cur, e.guard), re, ie)
			if cond.IsFalse() {
				continue
			}
			val = e.val
		case eZero:
			cond = And(e.guard, Eq(ref, e.ref))
			if cond.IsFalse() {
				continue
			}
			val = zeroOf(k.sort)
		case eLit:
			cond = And(e.guard, Eq(ref, e.ref))
			if cond.IsFalse() {
				continue
			}
			if c, ok := idx.ConstInt(); ok {
				if c >= 0 && int(c) < len(e.lit) {
					val = Int(int64(e.lit[c]))
				} else {
					val = Int(0)
				}
			} else if len(e.lit) <= 64 {
				val = Int(0)
				for j := len(e.lit) - 1; j >= 0; j-- {
					val = Ite(Eq(idx, Int(int64(j))), Int(int64(e.lit[j])), val)
				}
			} else {
				val = App(DeclFunc("Lit_"+fmt.Sprint(e.ref.id), []Sort{SInt}, SInt), bi(0), bi(255), idx)
			}
		case eBytesOf:
			cond = Eq(ref, e.ref)
			if cond.IsFalse() {
				continue
			}
			val = batT(e.val, idx)
		case eCopy:
			re := Eq(ref, e.ref)
			if re.IsFalse() {
				continue
			}
			rel := Sub(idx, e.idx)
			cond = And(m.guardUnder(cur, e.guard), re, Le(Int(0), rel), Lt(rel, e.n))
			if cond.IsFalse() {
				continue
			}
			val = m.Read(k, e.src, Add(e.srcOff, rel), e.srcUpto)
		case eHavoc:
			cond = And(e.guard, Le(ref, e.ctr))
			if e.water != nil {
				cond = And(cond, Gt(ref, e.water))
			}
			if cond.IsFalse() {
				continue
			}
			val = m.baseApp(k, e.base, ref, idx, e.ctr)
		}
		if traceCalls && readDepth > 5 && readWarned < 6 {
			fmt.Fprintf(os.Stderr, "   entry %d typ=%d origin=%s eref=%s\n", i, e.typ, e.origin, e.ref.StringLimit(100))
		}
		if cond.IsTrue() {
			tail = val
			break
		}
		chain = append(chain, pend{cond, val})
	}
	if tail == nil {
		// objects allocated during the execution (ref > 0) start zeroed; the rest is
		// the unknown initial heap
		tail = Ite(Gt(ref, Int(0)), zeroOf(k.sort), m.baseApp(k, k.base0, ref, idx, nil))
	}
	res := tail
	for i := len(chain) - 1; i >= 0; i-- {
		res = Ite(chain[i].cond, chain[i].val, res)
	}
	res = m.underCur(cur, res, 0)
	m.cache[key] = res
	return res
}

// baseApp is the value of a cell not determined by the log: an application of an
// uninterpreted function whose range is the kind's type range.
func (m *Mem) baseApp(k *kindInfo, f *FuncDecl, ref, idx *Term, refHi *Term) *Term {
	lo, hi := k.lo, k.hi
	if k.isRef && refHi == nil {
		hi = bi(0) // references in the initial heap are <= 0 (0 = nil)
	}
	t := App(f, lo, hi, ref, idx)
	if k.isRef && refHi != nil {
		// a reference read out of havoced memory names an object that already exists
		m.ex.assumeGlobal(Le(t, refHi))
	}
	return t
}

func (m *Mem) push(k *kindInfo, e MemEntry) {
	if e.guard.IsFalse() {
		return
	}
	if traceCalls {
		e.origin = strings.Join(m.ex.fnStack, ">")
	}
	k.log = append(k.log, e)
}

func (m *Mem) Store(k *kindInfo, guard, ref, idx, val *Term) {
	m.push(k, MemEntry{typ: eStore, guard: guard, ref: ref, idx: idx, val: val})
	m.ex.noteWrite(k, guard, ref, Int(1))
}

func (m *Mem) Copy(k *kindInfo, guard, dst, dstOff, n, src, srcOff *Term) {
	if c, ok := n.ConstInt(); ok && c <= 8 {
		// small constant copies become stores (keeps ite-chains shallow)
		upto := len(k.log)
		vals := make([]*Term, c)
		for i := int64(0); i < c; i++ {
			vals[i] = m.Read(k, src, Add(srcOff, Int(i)), upto)
		}
		for i := int64(0); i < c; i++ {
			m.push(k, MemEntry{typ: eStore, guard: guard, ref: dst, idx: Add(dstOff, Int(i)), val: vals[i]})
		}
		m.ex.noteWrite(k, guard, dst, n)
		return
	}
	m.push(k, MemEntry{typ: eCopy, guard: guard, ref: dst, idx: dstOff, n: n, src: src, srcOff: srcOff, srcUpto: len(k.log)})
	m.ex.noteWrite(k, guard, dst, n)
}

// Havoc makes every cell of kind k in objects (water, ctr] unknown.
func (m *Mem) Havoc(k *kindInfo, guard, water, ctr *Term) {
	TS.fresh++
	f := DeclFunc(fmt.Sprintf("Hv%d_%s", TS.fresh, k.name), []Sort{SInt, SInt}, k.sort)
	m.push(k, MemEntry{typ: eHavoc, guard: guard, base: f, water: water, ctr: ctr})
	m.ex.frameHavoc(k, guard, water)
}

func (m *Mem) Lit(k *kindInfo, ref *Term, s string) {
	m.push(k, MemEntry{typ: eLit, guard: True(), ref: ref, lit: s})
}

// ---------- type layout ----------

type comp struct {
	suffix string
	sort   Sort
	lo, hi *big.Int
	isRef  bool
	t      types.Type
}

func intKindOf(t types.Type) (IntKind, bool) {
	b, ok := t.Underlying().(*types.Basic)
	if !ok {
		return IntKind{}, false
	}
	switch b.Kind() {
	case types.Int8:
		return IntKind{8, true}, true
	case types.Int16:
		return IntKind{16, true}, true
	case types.Int32:
		return IntKind{32, true}, true
	case types.Int, types.Int64, types.UntypedInt:
		return IntKind{64, true}, true
	case types.Uint8:
		return IntKind{8, false}, true
	case types.Uint16:
		return IntKind{16, false}, true
	case types.Uint32:
		return IntKind{32, false}, true
	case types.Uint, types.Uint64, types.Uintptr:
		return IntKind{64, false}, true
	case types.UntypedRune:
		return IntKind{32, true}, true
	}
	return IntKind{}, false
}

func isBool(t types.Type) bool {
	b, ok := t.Underlying().(*types.Basic)
	return ok && (b.Kind() == types.Bool || b.Kind() == types.UntypedBool)
}

func isString(t types.Type) bool {
	b, ok := t.Underlying().(*types.Basic)
	return ok && (b.Kind() == types.String || b.Kind() == types.UntypedString)
}

// layout lists the scalar components a value of type t occupies.
func layout(t types.Type) []comp {
	if ik, ok := intKindOf(t); ok {
		return []comp{{"", SInt, ik.lo(), ik.hi(), false, t}}
	}
	if isBool(t) {
		return []comp{{"", SBool, nil, nil, false, t}}
	}
	if isString(t) {
		return []comp{{".arr", SInt, nil, nil, true, t}, {".off", SInt, bi(0), pow48, false, t}, {".len", SInt, bi(0), pow48, false, t}}
	}
	switch u := t.Underlying().(type) {
	case *types.Pointer, *types.Map, *types.Chan:
		return []comp{{"", SInt, nil, nil, true, t}}
	case *types.Signature:
		return []comp{{"", SInt, bi(0), nil, false, t}}
	case *types.Slice:
		return []comp{{".arr", SInt, nil, nil, true, t}, {".off", SInt, bi(0), pow48, false, t}, {".len", SInt, bi(0), pow48, false, t}, {".cap", SInt, bi(0), pow48, false, t}}
	case *types.Interface:
		// payloads of non-empty interfaces are references in this library (pointer
		// receivers, external pointer types, error objects)
		return []comp{{".tag", SInt, bi(0), nil, false, t}, {".data", SInt, nil, nil, u.NumMethods() > 0, t}}
	case *types.Struct:
		var out []comp
		for i := 0; i < u.NumFields(); i++ {
			f := u.Field(i)
			for _, c := range layout(f.Type()) {
				c.suffix = "." + f.Name() + c.suffix
				out = append(out, c)
			}
		}
		return out
	case *types.Array:
		// arrays are objects of their own; as a component they are a reference
		return []comp{{"", SInt, nil, nil, true, t}}
	}
	panic("layout: unsupported type " + t.String())
}

func typeKey(t types.Type) string {
	s := types.TypeString(t, func(p *types.Package) string {
		path := p.Path()
		if i := strings.LastIndex(path, "/"); i >= 0 {
			path = path[i+1:]
		}
		return path
	})
	// byte = uint8 and rune = int32 are the same types: one spelling for each
	if strings.Contains(s, "uint8") {
		s = reUint8.ReplaceAllString(s, "byte")
	}
	if strings.Contains(s, "rune") {
		s = reRune.ReplaceAllString(s, "int32")
	}
	return s
}

var reUint8 = regexp.MustCompile(`\buint8\b`)
var reRune = regexp.MustCompile(`\brune\b`)

// elemBase is the base kind of the elements of a slice/array of elem type t.
func elemBase(t types.Type) string { return "[]" + typeKey(t) }

// structBase is the base kind for fields of struct type t.
func structBase(t types.Type) string { return typeKey(t) }

func (ex *Exec) kindFor(base string, c comp) *kindInfo {
	return ex.mem.kind(base+c.suffix, c.sort, c.lo, c.hi, c.isRef)
}

// ---------- load / store of typed values ----------

func (ex *Exec) loadAt(base string, ref, idx *Term, t types.Type, upto int) Value {
	cs := layout(t)
	rd := func(c comp) *Term { return ex.mem.Read(ex.kindFor(base, c), ref, idx, upto) }
	return ex.assemble(t, cs, rd)
}

// assemble builds a Value of type t from its components (in layout order).
func (ex *Exec) assemble(t types.Type, cs []comp, rd func(comp) *Term) Value {
	pos := 0
	var build func(t types.Type, prefix string) Value
	build = func(t types.Type, prefix string) Value {
		if _, ok := intKindOf(t); ok || isBool(t) {
			v := rd(cs[pos])
			pos++
			return v
		}
		if isString(t) {
			a, o, l := rd(cs[pos]), rd(cs[pos+1]), rd(cs[pos+2])
			pos += 3
			return StrV{Arr: a, Off: o, Len: l}
		}
		switch u := t.Underlying().(type) {
		case *types.Pointer:
			r := rd(cs[pos])
			pos++
			return PtrV{Base: "", Ref: r, T: u.Elem()}
		case *types.Map, *types.Chan, *types.Array:
			r := rd(cs[pos])
			pos++
			return r
		case *types.Signature:
			r := rd(cs[pos])
			pos++
			return FuncV{Tag: r}
		case *types.Slice:
			a, o, l, c := rd(cs[pos]), rd(cs[pos+1]), rd(cs[pos+2]), rd(cs[pos+3])
			pos += 4
			sv := SliceV{Arr: a, Off: o, Len: l, Cap: c, Elem: u.Elem()}
			ex.assumeSliceWF(sv)
			return sv
		case *types.Interface:
			tag, d := rd(cs[pos]), rd(cs[pos+1])
			pos += 2
			return IfaceV{Tag: tag, Val: d}
		case *types.Struct:
			sv := StructV{T: t}
			for i := 0; i < u.NumFields(); i++ {
				sv.Fields = append(sv.Fields, build(u.Field(i).Type(), prefix+"."+u.Field(i).Name()))
			}
			return sv
		}
		panic("assemble: " + t.String())
	}
	return build(t, "")
}

// flatten lists the component terms of v (of type t) in layout order.
func (ex *Exec) flatten(t types.Type, v Value) []*Term {
	if _, ok := intKindOf(t); ok || isBool(t) {
		return []*Term{v.(*Term)}
	}
	if isString(t) {
		s := v.(StrV)
		return []*Term{s.Arr, s.Off, s.Len}
	}
	switch u := t.Underlying().(type) {
	case *types.Pointer:
		switch p := v.(type) {
		case PtrV:
			if !ex.wholeObj(p) {
				// pointer into an object: not storable in this model
				ex.unsupported("store of interior pointer " + p.Base)
				return []*Term{Fresh("intptr", SInt, nil, nil)}
			}
			return []*Term{p.Ref}
		case *Term:
			return []*Term{p}
		}
	case *types.Map, *types.Chan, *types.Array:
		return []*Term{v.(*Term)}
	case *types.Signature:
		return []*Term{v.(FuncV).Tag}
	case *types.Slice:
		s := v.(SliceV)
		return []*Term{s.Arr, s.Off, s.Len, s.Cap}
	case *types.Interface:
		iv := v.(IfaceV)
		return []*Term{iv.Tag, ex.boxData(iv)}
	case *types.Struct:
		sv := v.(StructV)
		var out []*Term
		for i := 0; i < u.NumFields(); i++ {
			out = append(out, ex.flatten(u.Field(i).Type(), sv.Fields[i])...)
		}
		return out
	}
	panic(fmt.Sprintf("flatten: %s %T", t, v))
}

// boxData maps an interface payload to a single Int cell.
func (ex *Exec) boxData(iv IfaceV) *Term {
	switch d := iv.Val.(type) {
	case nil:
		return Int(0)
	case *Term:
		if d.sort == SBool {
			return Ite(d, Int(1), Int(0))
		}
		return d
	case PtrV:
		if ex.wholeObj(d) {
			return d.Ref
		}
	}
	// composite payload: opaque handle, remembered engine-side
	h := Fresh("box", SInt, nil, nil)
	ex.boxes[h.id] = iv.Val
	return h
}

func (ex *Exec) storeAt(base string, guard, ref, idx *Term, t types.Type, v Value) {
	cs := layout(t)
	ts := ex.flatten(t, v)
	if len(cs) != len(ts) {
		panic("storeAt: layout mismatch for " + t.String())
	}
	for i, c := range cs {
		ex.mem.Store(ex.kindFor(base, c), guard, ref, idx, ts[i])
	}
}

func (ex *Exec) zeroValue(t types.Type) Value {
	cs := layout(t)
	return ex.assemble(t, cs, func(c comp) *Term { return zeroOf(c.sort) })
}

// iteValue merges two values of the same type.
func (ex *Exec) iteValue(c *Term, t types.Type, a, b Value) Value {
	if c.IsTrue() {
		return a
	}
	if c.IsFalse() {
		return b
	}
	if tt, ok := t.(*types.Tuple); ok {
		av, bv := a.(TupleV), b.(TupleV)
		out := make(TupleV, tt.Len())
		for i := 0; i < tt.Len(); i++ {
			out[i] = ex.iteValue(c, tt.At(i).Type(), av[i], bv[i])
		}
		return out
	}
	// interface payloads that are composite must match structurally
	if ia, ok := a.(IfaceV); ok {
		ib := b.(IfaceV)
		return IfaceV{Tag: Ite(c, ia.Tag, ib.Tag), Val: ex.itePayload(c, ia, ib)}
	}
	if pa, ok := a.(PtrV); ok {
		pb, ok2 := b.(PtrV)
		if ok2 && pa.Base == pb.Base && (pa.Idx == nil) == (pb.Idx == nil) {
			r := PtrV{Base: pa.Base, Ref: Ite(c, pa.Ref, pb.Ref), T: pa.T}
			if pa.Idx != nil {
				r.Idx = Ite(c, pa.Idx, pb.Idx)
			}
			return r
		}
		ex.unsupported("merge of pointers with different bases")
		return a
	}
	if sa, ok := a.(StrV); ok {
		sb := b.(StrV)
		return StrV{Arr: Ite(c, sa.Arr, sb.Arr), Off: Ite(c, sa.Off, sb.Off), Len: Ite(c, sa.Len, sb.Len)}
	}
	ta := ex.flattenLoose(t, a)
	tb := ex.flattenLoose(t, b)
	cs := layout(t)
	i := -1
	return ex.assembleNoWF(t, cs, func(comp) *Term { i++; return Ite(c, ta[i], tb[i]) })
}

func (ex *Exec) itePayload(c *Term, a, b IfaceV) Value {
	if a.Val == nil && b.Val == nil {
		return nil
	}
	return Ite(c, ex.boxData(a), ex.boxData(b))
}

func (ex *Exec) flattenLoose(t types.Type, v Value) []*Term { return ex.flatten(t, v) }

// assembleNoWF is assemble without emitting slice well-formedness assumptions
// (merging two well-formed slices gives a well-formed slice).
func (ex *Exec) assembleNoWF(t types.Type, cs []comp, rd func(comp) *Term) Value {
	old := ex.noWF
	ex.noWF = true
	v := ex.assemble(t, cs, rd)
	ex.noWF = old
	return v
}

func (ex *Exec) assumeSliceWF(s SliceV) {
	if ex.noWF {
		return
	}
	if s.Len.IsConst() && s.Cap.IsConst() && s.Off.IsConst() {
		return
	}
	if traceHyp != "" {
		fmt.Fprintf(os.Stderr, "WF %s %s noWF=%v\n", s.Len.StringLimit(100), s.Cap.StringLimit(100), ex.noWF)
	}
	ex.assumeGlobal(And(Le(Int(0), s.Len), Le(s.Len, s.Cap), Le(s.Cap, IntB(pow48)), Le(Int(0), s.Off),
		Implies(Eq(s.Arr, Int(0)), And(Eq(s.Cap, Int(0)), Eq(s.Off, Int(0))))))
}

// wholeObj: p points at a whole allocated object (not into one).
func (ex *Exec) wholeObj(p PtrV) bool {
	return p.Idx == nil && (p.Base == "" || (p.T != nil && p.Base == ex.allocBase(p.T)))
}

// guardUnder simplifies an entry's guard knowing that the read happens under the
// reach condition cur: a guard all of whose conjuncts are conjuncts of cur is true.
func (m *Mem) guardUnder(cur, g *Term) *Term {
	if cur == nil || g.IsTrue() {
		return g
	}
	if g == cur {
		return True()
	}
	var curSet map[int]bool
	in := func(x *Term) bool {
		if x == cur {
			return true
		}
		if cur.op != "and" {
			return false
		}
		if curSet == nil {
			curSet = make(map[int]bool, len(cur.args))
			for _, a := range cur.args {
				curSet[a.id] = true
			}
		}
		return curSet[x.id]
	}
	if g.op == "and" {
		// drop the conjuncts that are already part of the path condition
		var rest []*Term
		for _, a := range g.args {
			if !in(a) {
				rest = append(rest, a)
			}
		}
		if len(rest) == len(g.args) || (noPartialGuard && len(rest) > 0) {
			return g
		}
		return And(rest...)
	}
	if in(g) {
		return True()
	}
	return g
}

// underCur simplifies the spine of an ite-term knowing that it is used under the
// reach condition cur: a condition all of whose conjuncts are conjuncts of cur is
// true, one whose negation is a conjunct of cur is false.
var noUnderCur = os.Getenv("IKEVERIF_NOUNDERCUR") != ""
var noPartialGuard = os.Getenv("IKEVERIF_NOPARTIAL") != ""

func (m *Mem) underCur(cur, t *Term, depth int) *Term {
	if noUnderCur {
		return t
	}
	if cur == nil || t.op != "ite" || depth > 6 {
		return t
	}
	c := t.args[0]
	if m.guardUnder(cur, c).IsTrue() {
		return m.underCur(cur, t.args[1], depth+1)
	}
	if m.guardUnder(cur, Not(c)).IsTrue() {
		return m.underCur(cur, t.args[2], depth+1)
	}
	return t
}

// refLeafCount: number of leaves if t is an ite-tree whose leaves are constants or
// variables (plain references), at most 8; else 0.
func refLeafCount(t *Term, depth int) int {
	if t.op == "const" || t.op == "var" {
		return 1
	}
	if t.op == "+" && len(t.args) == 2 && t.args[1].op == "const" && t.args[0].op == "var" {
		return 1 // counter + offset
	}
	if t.op != "ite" || depth > 4 {
		return 0
	}
	x := refLeafCount(t.args[1], depth+1)
	if x == 0 {
		return 0
	}
	y := refLeafCount(t.args[2], depth+1)
	if y == 0 || x+y > 8 {
		return 0
	}
	return x + y
}
