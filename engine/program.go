package main

import (
	"fmt"
	"go/ast"
	"go/token"
	"go/types"
	"os"
	"path/filepath"
	"sort"
	"strings"

	"golang.org/x/tools/go/ast/astutil"
	"golang.org/x/tools/go/packages"
	"golang.org/x/tools/go/ssa"
	"golang.org/x/tools/go/ssa/ssautil"
)

const repoMod = "github.com/free5gc/ike"

type Program struct {
	prog     *ssa.Program
	fset     *token.FileSet
	ppkgs    []*packages.Package
	spkgs    map[string]*ssa.Package
	files    map[string]*ast.File
	src      map[string][]byte
	typeIDs  map[string]int
	typeByID []types.Type
	funcIDs  map[*ssa.Function]int
	funcByID []*ssa.Function
	globals  map[*ssa.Global]int64
	nextGlob int64
	nextExt  int64
	fnInfo   map[*ssa.Function]*fnInfo
	litObjs  map[string]StrV
	litByRef map[int64]string
	litCtr   int64
	interned map[string]int
	implMemo map[string][]types.Type
	initMem  *Mem
	initHyps []*Term
	initCtr  int64

	loopInvs      map[string][]*LoopInv
	loopSteps     map[string][]*LoopInv
	loopExits     map[string][]*LoopInv
	summaries     map[string]*Summary
	intrinsics    map[string]func(ex *Exec, f *Frame, call *ssa.Call, args []Value, reach *Term) (Value, *Term)
	overlay       map[string][]byte
	repoDir       string
	modelsUsed    map[string]bool
	nextUnk       int64
	directives    map[string][]string
	modSets       map[string]*modSet
	kindTemplates map[string]kindInfo
	contractsDir  string
}

const litBase int64 = 1 << 50

func goEnv() []string {
	return append(os.Environ(), "GOFLAGS=-mod=mod", "GOPROXY=off", "GOSUMDB=off", "GOTOOLCHAIN=local", "CGO_ENABLED=0")
}

// LoadProgram loads /repo (current working tree) plus the overlay files of
// contractsDir/<pkgdir>/*.go mapped into the corresponding package directories.
func LoadProgram(repoDir, contractsDir string) (*Program, error) {
	P := &Program{spkgs: map[string]*ssa.Package{}, files: map[string]*ast.File{}, src: map[string][]byte{},
		typeIDs: map[string]int{}, typeByID: []types.Type{nil}, funcIDs: map[*ssa.Function]int{}, funcByID: []*ssa.Function{nil},
		globals: map[*ssa.Global]int64{}, fnInfo: map[*ssa.Function]*fnInfo{}, litObjs: map[string]StrV{}, litByRef: map[int64]string{},
		interned: map[string]int{}, implMemo: map[string][]types.Type{}, loopInvs: map[string][]*LoopInv{}, loopSteps: map[string][]*LoopInv{}, loopExits: map[string][]*LoopInv{}, summaries: map[string]*Summary{},
		overlay: map[string][]byte{}, repoDir: repoDir}
	P.litCtr = litBase
	P.intrinsics = intrinsicTable()
	if contractsDir != "" {
		err := filepath.Walk(contractsDir, func(p string, info os.FileInfo, err error) error {
			if err != nil || info.IsDir() || !strings.HasSuffix(p, ".go") {
				return err
			}
			rel, _ := filepath.Rel(contractsDir, p)
			dir := filepath.Dir(rel)
			if dir == "root" {
				dir = "."
			}
			dst := filepath.Join(repoDir, dir, "zz_verif_"+filepath.Base(p))
			b, err := os.ReadFile(p)
			if err != nil {
				return err
			}
			P.overlay[dst] = b
			return nil
		})
		if err != nil {
			return nil, err
		}
	}
	P.fset = token.NewFileSet()
	cfg := &packages.Config{Mode: packages.LoadAllSyntax, Dir: repoDir, Env: goEnv(), Fset: P.fset,
		Overlay: P.overlay, BuildFlags: []string{"-tags=verif"}}
	pkgs, err := packages.Load(cfg, "./...")
	if err != nil {
		return nil, err
	}
	var errs []string
	packages.Visit(pkgs, nil, func(p *packages.Package) {
		for _, e := range p.Errors {
			errs = append(errs, e.Error())
		}
	})
	if len(errs) > 0 {
		return nil, fmt.Errorf("load errors:\n%s", strings.Join(errs, "\n"))
	}
	P.ppkgs = pkgs
	prog, spkgs := ssautil.AllPackages(pkgs, ssa.BuilderMode(0))
	prog.Build()
	P.prog = prog
	for i, sp := range spkgs {
		if sp == nil {
			continue
		}
		P.spkgs[sp.Pkg.Path()] = sp
		for _, f := range pkgs[i].Syntax {
			name := P.fset.File(f.Pos()).Name()
			P.files[name] = f
		}
	}
	P.contractsDir = contractsDir
	P.directives = map[string][]string{}
	for name, f := range P.files {
		if _, isOv := P.overlay[name]; !isOv {
			continue
		}
		for _, d := range f.Decls {
			fd, ok := d.(*ast.FuncDecl)
			if !ok || fd.Doc == nil {
				continue
			}
			for _, c := range fd.Doc.List {
				if strings.HasPrefix(c.Text, "//verif:") {
					P.directives[fd.Name.Name] = append(P.directives[fd.Name.Name], strings.TrimSpace(strings.TrimPrefix(c.Text, "//verif:")))
				}
			}
		}
	}
	P.loadContractDirectives()
	// deterministic ids for repo globals and functions
	var paths []string
	for p := range P.spkgs {
		paths = append(paths, p)
	}
	sort.Strings(paths)
	for _, p := range paths {
		sp := P.spkgs[p]
		var names []string
		for n := range sp.Members {
			names = append(names, n)
		}
		sort.Strings(names)
		for _, n := range names {
			switch m := sp.Members[n].(type) {
			case *ssa.Global:
				P.nextGlob++
				P.globals[m] = P.nextGlob
			case *ssa.Function:
				P.funcID(m)
			}
		}
	}
	return P, nil
}

func (P *Program) isRepoPkg(path string) bool {
	return path == repoMod || strings.HasPrefix(path, repoMod+"/")
}

func (P *Program) typeID(t types.Type) int {
	k := t.String()
	if id, ok := P.typeIDs[k]; ok {
		return id
	}
	id := len(P.typeByID)
	P.typeIDs[k] = id
	P.typeByID = append(P.typeByID, t)
	return id
}

func (P *Program) funcID(fn *ssa.Function) int {
	if id, ok := P.funcIDs[fn]; ok {
		return id
	}
	id := len(P.funcByID)
	P.funcIDs[fn] = id
	P.funcByID = append(P.funcByID, fn)
	return id
}

func (P *Program) globalPtr(g *ssa.Global) PtrV {
	id, ok := P.globals[g]
	if !ok {
		// external package global: unknown (but fixed) content
		P.nextExt++
		id = -(1 << 41) - P.nextExt
		P.globals[g] = id
	}
	t := g.Type().(*types.Pointer).Elem()
	return PtrV{Ref: Int(id), T: t}
}

func (P *Program) internStr(s string) int {
	if id, ok := P.interned[s]; ok {
		return id
	}
	id := len(P.interned) + 1
	P.interned[s] = id
	return id
}

func (P *Program) internedSorted() []string {
	var out []string
	for s := range P.interned {
		out = append(out, s)
	}
	sort.Strings(out)
	return out
}

// implementers lists the concrete types of the repository that implement interface it.
func (P *Program) implementers(it types.Type) []types.Type {
	key := it.String()
	if r, ok := P.implMemo[key]; ok {
		return r
	}
	iface, ok := it.Underlying().(*types.Interface)
	if !ok {
		return nil
	}
	var out []types.Type
	var paths []string
	for p := range P.spkgs {
		if P.isRepoPkg(p) {
			paths = append(paths, p)
		}
	}
	sort.Strings(paths)
	for _, p := range paths {
		sp := P.spkgs[p]
		var names []string
		for n := range sp.Members {
			names = append(names, n)
		}
		sort.Strings(names)
		for _, n := range names {
			tm, ok := sp.Members[n].(*ssa.Type)
			if !ok {
				continue
			}
			t := tm.Type()
			if _, isI := t.Underlying().(*types.Interface); isI {
				continue
			}
			if types.Implements(t, iface) {
				out = append(out, t)
			} else if pt := types.NewPointer(t); types.Implements(pt, iface) {
				out = append(out, pt)
			}
		}
	}
	P.implMemo[key] = out
	return out
}

// funcsWithSig lists package-level repo functions with exactly that signature
// (the closed world for calls through function values).
func (P *Program) funcsWithSig(sig *types.Signature) []*ssa.Function {
	var out []*ssa.Function
	for _, fn := range P.funcByID {
		if fn == nil || fn.Pkg == nil || !P.isRepoPkg(fn.Pkg.Pkg.Path()) || fn.Signature.Recv() != nil {
			continue
		}
		if types.Identical(fn.Signature, sig) {
			out = append(out, fn)
		}
	}
	return out
}

func (P *Program) findFunc(pkgPath, name string) *ssa.Function {
	sp := P.spkgs[pkgPath]
	if sp == nil {
		return nil
	}
	return sp.Func(name)
}

// findMethod finds method `name` on named type `typ` (pointer or value receiver).
func (P *Program) findMethod(pkgPath, typ, name string) *ssa.Function {
	sp := P.spkgs[pkgPath]
	if sp == nil {
		return nil
	}
	tm := sp.Type(typ)
	if tm == nil {
		return nil
	}
	for _, t := range []types.Type{types.NewPointer(tm.Type()), tm.Type()} {
		ms := P.prog.MethodSets.MethodSet(t)
		for i := 0; i < ms.Len(); i++ {
			if ms.At(i).Obj().Name() == name {
				return P.prog.MethodValue(ms.At(i))
			}
		}
	}
	return nil
}

// source returns the bytes of a (possibly overlaid) file.
func (P *Program) source(name string) []byte {
	if b, ok := P.src[name]; ok {
		return b
	}
	b, ok := P.overlay[name]
	if !ok {
		b, _ = os.ReadFile(name)
	}
	P.src[name] = b
	return b
}

// exprText names an instruction by the source text of the expression it comes from
// (no line numbers, so names survive unrelated edits).
func (P *Program) exprText(pos token.Pos, kind string) string {
	if !pos.IsValid() {
		return kind
	}
	tf := P.fset.File(pos)
	if tf == nil {
		return kind
	}
	file := P.files[tf.Name()]
	if file == nil {
		return kind
	}
	path, _ := astutil.PathEnclosingInterval(file, pos, pos)
	var node ast.Node
	for _, n := range path {
		ok := false
		switch n.(type) {
		case *ast.IndexExpr:
			ok = kind == "index"
		case *ast.SliceExpr:
			ok = kind == "slice"
		case *ast.SelectorExpr:
			ok = kind == "sel"
		case *ast.CallExpr:
			ok = kind == "call"
		case *ast.BinaryExpr:
			ok = kind == "bin"
		case *ast.TypeAssertExpr:
			ok = kind == "assert"
		case *ast.RangeStmt:
			ok = kind == "index"
		}
		if ok {
			node = n
			break
		}
	}
	if node == nil {
		for _, n := range path {
			if _, ok := n.(ast.Expr); ok {
				node = n
				break
			}
		}
	}
	if node == nil {
		return kind
	}
	if rs, ok := node.(*ast.RangeStmt); ok {
		node = rs.X
	}
	src := P.source(tf.Name())
	a, b := tf.Offset(node.Pos()), tf.Offset(node.End())
	if a < 0 || b > len(src) || a >= b {
		return kind
	}
	s := strings.Join(strings.Fields(string(src[a:b])), " ")
	if len(s) > 90 {
		s = s[:90] + "…"
	}
	return s
}

// RunInit executes the package initialisers symbolically; the resulting heap is the
// invariant global state every other function starts from.
func (P *Program) RunInit() error {
	cfg := newRunCfg()
	cfg.initMode, cfg.unrollAll = true, 512 // initialisers run on concrete data: loops are executed, not cut
	ex := newExec(P, cfg)
	ex.ctrBase, ex.ctrOff = Int(0), P.nextGlob
	ex.fnStack = []string{"init"}
	P.setWellKnownGlobals(ex)
	var paths []string
	for p := range P.spkgs {
		if P.isRepoPkg(p) {
			paths = append(paths, p)
		}
	}
	sort.Strings(paths)
	for _, p := range paths {
		fn := P.spkgs[p].Func("init")
		if fn == nil {
			continue
		}
		ex.callFn(fn, nil, True())
	}
	if len(ex.unsup) > 0 {
		return fmt.Errorf("init: unsupported: %s", strings.Join(ex.unsup, "; "))
	}
	if !ex.ctrBase.IsConst() {
		return fmt.Errorf("init: allocation counter not concrete")
	}
	for _, o := range ex.obls {
		if o.Status != "discharged" && !o.Optional {
			return fmt.Errorf("init: obligation not syntactically true: %s: %s", o.Name, o.Goal)
		}
	}
	P.initMem = ex.mem
	P.initHyps = ex.hyps
	P.initCtr = ex.ctrOff
	return nil
}
