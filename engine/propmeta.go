package main
