package main

// Counterexample concretisation and replay against the real code.
//
// A refuted obligation inside a cut loop has a model of the havoced loop state, not
// of the inputs.  It is re-queried with the loops unrolled 1..3 times from the
// function entry (quantifier free, BMC style) so that the model assigns the lemma's
// parameters; those are written to a replay file and executed against the real
// package with `go test -overlay` (the lemma function itself is the driver).

import (
	"encoding/hex"
	"encoding/json"
	"fmt"
	"math/big"
	"os"
	"os/exec"
	"path/filepath"
	"strconv"
	"strings"

	"golang.org/x/tools/go/ssa"
)

type ReplayArg struct {
	Name  string `json:"name"`
	Type  string `json:"type"`
	Hex   string `json:"hex,omitempty"`
	Int   string `json:"int,omitempty"`
	Bool  *bool  `json:"bool,omitempty"`
	Str   string `json:"str_hex,omitempty"`
	Ints  string `json:"ints,omitempty"` // slice of integers: comma separated decimal elements
	IsNil bool   `json:"nil,omitempty"`
}

type ReplayFile struct {
	SearchCases  int         `json:"search_cases_without_counterexample,omitempty"`
	Property     string      `json:"property"`
	Obligation   string      `json:"obligation"`
	Lemma        string      `json:"lemma"`
	Package      string      `json:"package"`
	Args         []ReplayArg `json:"args,omitempty"`
	Unrolled     int         `json:"loops_unrolled,omitempty"`
	Status       string      `json:"status"` // confirmed | not-reproduced | no-failing-input-found
	Observed     string      `json:"observed,omitempty"`
	SolverOutput string      `json:"solver_output,omitempty"`
	Command      string      `json:"command,omitempty"`
	Note         string      `json:"note,omitempty"`
}

func baseName(n string) string {
	if i := strings.LastIndex(n, "@"); i > 0 {
		if _, err := strconv.Atoi(n[i+1:]); err == nil {
			return n[:i]
		}
	}
	return n
}

func parseBig(s string) *big.Int {
	n, ok := new(big.Int).SetString(strings.TrimSpace(s), 10)
	if !ok {
		return new(big.Int)
	}
	return n
}

// concretize finds parameter values that drive fn into violating the obligation.
func (P *Program) concretize(fn *ssa.Function, target string, opts VerifyOpts) ([]ReplayArg, int, string) {
	tb := baseName(target)
	for _, k := range []int{0, 1, 2, 3} {
		cfg := newRunCfg()
		cfg.unrollAll = k
		if k == 0 {
			cfg.unrollAll = -1 // loops executed zero times: only code before the first loop
		}
		P.applyLemmaConfig(fn, cfg)
		cfg.unroll = map[string]int{}
		cfg.unwindAssert = map[string]bool{}
		ex := P.newExecFromInit(cfg)
		ex.argPrefix = fn.Name() + "."
		var args []Value
		var params []ParamInfo
		for _, p := range fn.Params {
			pi := ParamInfo{Name: p.Name(), Type: p.Type().String()}
			args = append(args, ex.symArg(p.Name(), p.Type(), &pi))
			params = append(params, pi)
		}
		ex.callFn(fn, args, True())
		// the target must be reachable without relying on other labelled assertions
		skipHyps = map[int]bool{}
		for _, o := range ex.obls {
			if (o.Class == "assert" || o.Class == "post") && o.HypIdx >= 0 {
				skipHyps[o.HypIdx] = true
			}
		}
		defer func() { skipHyps = nil }()
		for _, o := range ex.obls {
			if o.Optional || baseName(o.Name) != tb || o.Status != "" {
				continue
			}
			var vt []*Term
			for _, p := range params {
				switch {
				case p.Int != nil:
					vt = append(vt, p.Int)
				case p.Bool != nil:
					vt = append(vt, p.Bool)
				case p.Slice != nil:
					vt = append(vt, p.Slice.Len, p.Slice.Arr)
				case p.Str != nil:
					vt = append(vt, p.Str.Len)
				}
			}
			o.ValTerms = vt
			qs := renderObligation(ex, o, true)
			if o.Status != "" || len(qs) == 0 {
				continue
			}
			r := solvePortfolio(qs[0], opts.TimeoutMs)
			if r.status != "sat" {
				continue
			}
			model := parseValues(r.output)
			// stage 2: fix the scalars, ask for the bytes
			fix := []*Term{}
			var byteTerms []*Term
			type sl struct {
				p   ParamInfo
				n   int
				nil bool
			}
			var sls []sl
			for _, p := range params {
				switch {
				case p.Int != nil:
					fix = append(fix, Eq(p.Int, IntB(parseBig(model[p.Int.name]))))
				case p.Bool != nil:
					if model[p.Bool.name] == "true" {
						fix = append(fix, p.Bool)
					} else {
						fix = append(fix, Not(p.Bool))
					}
				case p.Slice != nil:
					n := parseBig(model[p.Slice.Len.name])
					fix = append(fix, Eq(p.Slice.Len, IntB(n)))
					isNil := parseBig(model[p.Slice.Arr.name]).Sign() == 0
					cnt := int(n.Int64())
					if !n.IsInt64() || cnt > 70000 {
						cnt = 70000
					}
					sls = append(sls, sl{p, cnt, isNil})
					for i := 0; i < cnt; i++ {
						byteTerms = append(byteTerms, ex.mem.Read(ex.byteKind(), p.Slice.Arr, Add(p.Slice.Off, Int(int64(i))), 0))
					}
				case p.Str != nil:
					n := parseBig(model[p.Str.Len.name])
					fix = append(fix, Eq(p.Str.Len, IntB(n)))
					cnt := int(n.Int64())
					if cnt > 4096 {
						cnt = 4096
					}
					sls = append(sls, sl{p, cnt, false})
					for i := 0; i < cnt; i++ {
						byteTerms = append(byteTerms, ex.mem.Read(ex.byteKind(), p.Str.Arr, Add(p.Str.Off, Int(int64(i))), 0))
					}
				}
			}
			var bytesVals []string
			if len(byteTerms) > 0 {
				var asserts []*Term
				for i, h := range ex.hyps[:o.NHyps] {
					if !skipHyps[i] {
						asserts = append(asserts, h)
					}
				}
				asserts = append(asserts, Not(o.Goal))
				asserts = append(asserts, fix...)
				q2 := RenderQuery(asserts, byteTerms, ex.quant, "", true)
				r2 := solvePortfolio(q2, opts.TimeoutMs)
				if r2.status != "sat" {
					continue
				}
				bytesVals = parseValueList(r2.output, len(byteTerms))
			}
			var out []ReplayArg
			bi := 0
			si := 0
			for _, p := range params {
				a := ReplayArg{Name: p.Name, Type: p.Type}
				switch {
				case p.Int != nil:
					a.Int = parseBig(model[p.Int.name]).String()
				case p.Bool != nil:
					b := model[p.Bool.name] == "true"
					a.Bool = &b
				case p.Slice != nil, p.Str != nil:
					s := sls[si]
					si++
					buf := make([]byte, s.n)
					for i := 0; i < s.n; i++ {
						if bi < len(bytesVals) {
							v, _ := strconv.Atoi(bytesVals[bi])
							buf[i] = byte(v)
						}
						bi++
					}
					if p.Slice != nil {
						a.Hex = hex.EncodeToString(buf)
						a.IsNil = s.nil && s.n == 0
					} else {
						a.Str = hex.EncodeToString(buf)
					}
				}
				out = append(out, a)
			}
			return out, k, r.output
		}
	}
	return nil, 0, ""
}

// parseValueList extracts the values of a get-value answer in order.
func parseValueList(out string, n int) []string {
	i := strings.Index(out, "(")
	if i < 0 {
		return nil
	}
	var res []string
	for _, m := range valRe.FindAllStringSubmatch(out[i:], -1) {
		v := strings.ReplaceAll(strings.ReplaceAll(strings.ReplaceAll(m[2], "(", ""), ")", ""), " ", "")
		res = append(res, v)
	}
	return res
}

// goLiteral renders the argument as Go source.
func (a ReplayArg) goLiteral() string {
	switch {
	case a.Bool != nil:
		return fmt.Sprint(*a.Bool)
	case a.Int != "":
		t := a.Type
		if i := strings.LastIndex(t, "."); i >= 0 && strings.Contains(t, "/") {
			t = filepath.Base(t) // qualified named type: pkg.Name
		}
		return fmt.Sprintf("%s(%s)", t, a.Int)
	case a.Type == "string":
		return fmt.Sprintf("string(verifReplayBytes(%q, false))", a.Str)
	case strings.HasPrefix(a.Type, "[]") && a.Type != "[]byte":
		return fmt.Sprintf("%s{%s}", a.Type, a.Ints)
	default:
		return fmt.Sprintf("verifReplayBytes(%q, %v)", a.Hex, a.IsNil)
	}
}

// RunReplay executes the lemma on the arguments against the real package.
func (P *Program) RunReplay(rf *ReplayFile) {
	dir := scratch()
	pkgDir := strings.TrimPrefix(strings.TrimPrefix(rf.Package, repoMod), "/")
	pkgName := "ike"
	if sp := P.spkgs[rf.Package]; sp != nil {
		pkgName = sp.Pkg.Name()
	}
	var args []string
	for _, a := range rf.Args {
		args = append(args, a.goLiteral())
	}
	src := fmt.Sprintf(`//go:build verif

package %s

import (
	"encoding/hex"
	"fmt"
	"testing"
)

func verifReplayBytes(h string, isNil bool) []byte {
	if isNil {
		return nil
	}
	raw, _ := hex.DecodeString(h)
	b := make([]byte, len(raw)) // cap == len: an over-read cannot go unnoticed
	copy(b, raw)
	return b
}

func TestVerifReplay(t *testing.T) {
	defer func() {
		r := recover()
		if len(verifFailures) > 0 {
			fmt.Printf("REPLAY-RESULT: failed-assertions: %%v\n", verifFailures)
			return
		}
		if r == nil {
			fmt.Println("REPLAY-RESULT: ok")
			return
		}
		if _, skip := r.(verifSkip); skip {
			fmt.Println("REPLAY-RESULT: skipped (assumption of the lemma not met)")
			return
		}
		fmt.Printf("REPLAY-RESULT: panic: %%v\n", r)
	}()
	%s(%s)
}
`, pkgName, rf.Lemma, strings.Join(args, ", "))
	testFile := filepath.Join(dir, "replay_test.go")
	os.WriteFile(testFile, []byte(src), 0o644)
	ov := map[string]map[string]string{"Replace": {}}
	for dst, content := range P.overlay {
		tmp := filepath.Join(dir, "ov_"+strings.ReplaceAll(strings.TrimPrefix(dst, "/"), "/", "_"))
		os.WriteFile(tmp, content, 0o644)
		ov["Replace"][dst] = tmp
	}
	ov["Replace"][filepath.Join(P.repoDir, pkgDir, "zz_verif_replay_test.go")] = testFile
	ovb, _ := json.Marshal(ov)
	ovFile := filepath.Join(dir, "overlay.json")
	os.WriteFile(ovFile, ovb, 0o644)
	cmd := exec.Command("go", "test", "-overlay", ovFile, "-tags", "verif", "-vet=off", "-count=1", "-v", "-timeout", "60s", "-run", "^TestVerifReplay$", "./"+pkgDir)
	cmd.Dir = P.repoDir
	cmd.Env = goEnv()
	out, _ := cmd.CombinedOutput()
	rf.Command = "ikeverif replay <this file>  (go test -overlay … -tags verif -run ^TestVerifReplay$ ./" + pkgDir + ")"
	text := string(out)
	res := ""
	for _, l := range strings.Split(text, "\n") {
		if strings.HasPrefix(l, "REPLAY-RESULT: ") {
			res = strings.TrimPrefix(l, "REPLAY-RESULT: ")
		}
	}
	label := ""
	if i := strings.Index(rf.Obligation, "#assert:"); i >= 0 {
		label = rf.Obligation[i+len("#assert:"):]
	} else if i := strings.Index(rf.Obligation, "#post:"); i >= 0 {
		label = rf.Obligation[i+len("#post:"):]
	}
	switch {
	case strings.HasPrefix(res, "failed-assertions"):
		rf.Observed = res
		if label == "" || strings.Contains(res, label) {
			rf.Status = "confirmed"
		} else {
			rf.Status = "not-reproduced"
			rf.Note = "the input makes other assertions of the lemma fail, not this one"
		}
	case strings.HasPrefix(res, "panic"):
		rf.Status = "confirmed"
		rf.Observed = res
	case res == "":
		rf.Status = "not-reproduced"
		if len(text) > 1500 {
			text = text[len(text)-1500:]
		}
		rf.Observed = "replay did not run to completion: " + text
		if strings.Contains(text, "panic:") || strings.Contains(text, "fatal error") || strings.Contains(text, "test timed out") {
			rf.Status = "confirmed"
		}
	default:
		rf.Status = "not-reproduced"
		rf.Observed = res
	}
}
