package main

// Counterexample search: when the solver's refutation of an obligation yields no
// usable input (uninterpreted cryptographic functions, or unknown), the lemma function
// - which is executable Go - is run against the real package on boundary-biased random
// inputs drawn from VERIF_SEED until the named assertion fails or it panics.  A hit is
// replayed like any other counterexample.  (Never used to *pass* anything: only to turn
// "no-failing-input-found" into a confirmed input.)

import (
	"encoding/json"
	"fmt"
	"go/types"
	"os"
	"os/exec"
	"path/filepath"
	"strings"

	"golang.org/x/tools/go/ssa"
)

// lastSearchCompleted: the last call of searchInput ran all its cases without a hit.
var lastSearchCompleted bool

func (P *Program) searchInput(fn *ssa.Function, obligation string, cfg *RunCfg, cases int, seed int) []ReplayArg {
	label := ""
	if i := strings.Index(obligation, "#assert:"); i >= 0 {
		label = obligation[i+len("#assert:"):]
	} else if i := strings.Index(obligation, "#post:"); i >= 0 {
		label = obligation[i+len("#post:"):]
	}
	if j := strings.LastIndex(label, "@"); j > 0 {
		label = label[:j]
	}
	var gens, names, decls []string
	for i, p := range fn.Params {
		v := fmt.Sprintf("a%d", i)
		names = append(names, v)
		t := p.Type()
		maxLen := int64(300)
		if n, ok := cfg.maxLen[p.Name()]; ok && n < maxLen {
			maxLen = n
		}
		switch {
		case isBool(t):
			gens = append(gens, fmt.Sprintf("%s := rng.Intn(2) == 0", v))
			decls = append(decls, fmt.Sprintf(`{"name":%q,"type":"bool","bool":%%v}`, p.Name())+"|"+v)
		case isString(t):
			gens = append(gens, fmt.Sprintf("%s := string(verifGenBytes(rng, %d))", v, maxLen))
			decls = append(decls, fmt.Sprintf(`{"name":%q,"type":"string","str_hex":"%%x"}`, p.Name())+"|"+v)
		default:
			if ik, ok := intKindOf(t); ok {
				gens = append(gens, fmt.Sprintf("%s := %s(verifGenInt(rng, %d))", v, types.TypeString(t, func(*types.Package) string { return "" }), ik.bits))
				decls = append(decls, fmt.Sprintf(`{"name":%q,"type":%q,"int":"%%d"}`, p.Name(), t.String())+"|"+v)
			} else if sl, ok := t.Underlying().(*types.Slice); ok && types.Identical(sl.Elem(), types.Typ[types.Byte]) {
				gens = append(gens, fmt.Sprintf("%s := verifGenBytes(rng, %d)", v, maxLen))
				decls = append(decls, fmt.Sprintf(`{"name":%q,"type":"[]byte","hex":"%%x"}`, p.Name())+"|"+v)
			} else if sl, ok := t.Underlying().(*types.Slice); ok {
				ek, ok := intKindOf(sl.Elem())
				if !ok {
					return nil
				}
				et := types.TypeString(sl.Elem(), func(*types.Package) string { return "" })
				gens = append(gens, fmt.Sprintf("%s := make([]%s, len(verifGenBytes(rng, %d))); for i := range %s { %s[i] = %s(verifGenInt(rng, %d)) }", v, et, maxLen, v, v, et, ek.bits))
				decls = append(decls, fmt.Sprintf(`{"name":%q,"type":"[]%s","ints":"%%s"}`, p.Name(), et)+"|strings.Trim(strings.ReplaceAll(fmt.Sprint("+v+"), \" \", \",\"), \"[]\")")
			} else {
				return nil // parameter type the search cannot generate
			}
		}
	}
	var fmts, vals []string
	for _, d := range decls {
		parts := strings.SplitN(d, "|", 2)
		fmts = append(fmts, parts[0])
		vals = append(vals, parts[1])
	}
	pkgDir := strings.TrimPrefix(strings.TrimPrefix(fn.Pkg.Pkg.Path(), repoMod), "/")
	src := fmt.Sprintf(`//go:build verif

package %s

import (
	"fmt"
	"math/rand"
	"strings"
	"testing"
)

var verifLens = []int{0, 1, 2, 3, 4, 5, 7, 8, 11, 12, 15, 16, 16, 16, 17, 20, 20, 24, 24, 28, 31, 32, 32, 32, 33, 40, 47, 48, 64, 65}

func verifGenBytes(rng *rand.Rand, maxLen int) []byte {
	n := verifLens[rng.Intn(len(verifLens))]
	if rng.Intn(4) == 0 {
		n = rng.Intn(300)
	}
	if n > maxLen {
		n = maxLen
	}
	b := make([]byte, n)
	switch rng.Intn(4) {
	case 0: // zeros
	case 1:
		for i := range b {
			b[i] = 0xff
		}
	default:
		rng.Read(b)
	}
	if n > 0 && rng.Intn(3) == 0 {
		b[n-1] = byte([]int{0, 1, 15, 16, 17, 31, 255, n - 1, n}[rng.Intn(9)])
	}
	return b
}

func verifGenInt(rng *rand.Rand, bits uint) uint64 {
	var v uint64
	switch rng.Intn(6) {
	case 0:
		v = 0
	case 1:
		v = 1
	case 2:
		v = ^uint64(0)
	case 3:
		v = uint64(rng.Intn(300))
	default:
		v = rng.Uint64()
	}
	if bits < 64 {
		v &= (uint64(1) << bits) - 1
	}
	return v
}

func TestVerifSearch(t *testing.T) {
	rng := rand.New(rand.NewSource(%d))
	for c := 0; c < %d; c++ {
		%s
		hit := ""
		func() {
			defer func() {
				r := recover()
				if _, skip := r.(verifSkip); skip || r == nil {
					return
				}
				hit = fmt.Sprintf("panic: %%v", r)
			}()
			verifFailures = nil
			%s(%s)
		}()
		if hit == "" {
			for _, f := range verifFailures {
				if %q == "" || strings.Contains(f, %q) {
					hit = f
				}
			}
		}
		if hit != "" {
			fmt.Printf(`+"`"+`SEARCH-HIT: [%s]`+"`"+`+"\n", %s)
			return
		}
	}
	fmt.Println("SEARCH-MISS")
}
`, fn.Pkg.Pkg.Name(), seed, cases, strings.Join(gens, "\n\t\t"), fn.Name(), strings.Join(names, ", "), label, label, strings.Join(fmts, ","), strings.Join(vals, ", "))
	dir := scratch()
	testFile := filepath.Join(dir, "search_test.go")
	os.WriteFile(testFile, []byte(src), 0o644)
	ov := map[string]map[string]string{"Replace": {}}
	for dst, content := range P.overlay {
		tmp := filepath.Join(dir, "sov_"+strings.ReplaceAll(strings.TrimPrefix(dst, "/"), "/", "_"))
		os.WriteFile(tmp, content, 0o644)
		ov["Replace"][dst] = tmp
	}
	ov["Replace"][filepath.Join(P.repoDir, pkgDir, "zz_verif_search_test.go")] = testFile
	ovb, _ := json.Marshal(ov)
	ovFile := filepath.Join(dir, "soverlay.json")
	os.WriteFile(ovFile, ovb, 0o644)
	cmd := exec.Command("go", "test", "-overlay", ovFile, "-tags", "verif", "-vet=off", "-count=1", "-v", "-timeout", "120s", "-run", "^TestVerifSearch$", "./"+pkgDir)
	cmd.Dir = P.repoDir
	cmd.Env = goEnv()
	out, _ := cmd.CombinedOutput()
	if os.Getenv("IKEVERIF_TRACESEARCH") != "" {
		fmt.Fprintf(os.Stderr, "SEARCH OUTPUT:\n%s\n", tail(string(out), 3000))
	}
	if strings.Contains(string(out), "SEARCH-MISS") {
		lastSearchCompleted = true // every case was executed on the real package, none fails
	}
	for _, l := range strings.Split(string(out), "\n") {
		if strings.HasPrefix(l, "SEARCH-HIT: ") {
			var args []ReplayArg
			if json.Unmarshal([]byte(strings.TrimPrefix(l, "SEARCH-HIT: ")), &args) == nil {
				return args
			}
		}
	}
	return nil
}
