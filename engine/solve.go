package main

import (
	"bytes"
	"context"
	"fmt"
	"os"
	"os/exec"
	"path/filepath"
	"regexp"
	"strings"
	"sync"
	"sync/atomic"
	"syscall"
	"time"
)

type solverSpec struct {
	name string
	args func(file string, timeoutMs int) []string
}

var solvers = []solverSpec{
	{"z3-new 5.1.0", func(f string, t int) []string { return []string{"z3-new", fmt.Sprintf("-t:%d", t), f} }},
	{"cvc5 1.0.3", func(f string, t int) []string {
		return []string{"cvc5", fmt.Sprintf("--tlimit=%d", t), "--incremental", f}
	}},
	{"z3 4.8.12", func(f string, t int) []string { return []string{"z3", fmt.Sprintf("-t:%d", t), f} }},
}

type solveResult struct {
	status string // unsat sat unknown
	solver string
	millis int64
	output string
}

var scratchDir string

func scratch() string {
	if scratchDir == "" {
		base := os.Getenv("TMPDIR")
		if base == "" {
			base = "/tmp"
		}
		d, err := os.MkdirTemp(base, "ikeverif.")
		if err != nil {
			panic(err)
		}
		scratchDir = d
	}
	return scratchDir
}

func cleanupScratch() {
	if scratchDir != "" {
		os.RemoveAll(scratchDir)
		scratchDir = ""
	}
}

var fileCtr int
var fileMu sync.Mutex

func runSolver(sp solverSpec, query string, timeoutMs int) solveResult {
	return runSolverCtx(context.Background(), sp, query, timeoutMs)
}

func runSolverCtx(parent context.Context, sp solverSpec, query string, timeoutMs int) solveResult {
	fileMu.Lock()
	fileCtr++
	fn := filepath.Join(scratch(), fmt.Sprintf("q%d.smt2", fileCtr))
	fileMu.Unlock()
	q := query
	if strings.HasPrefix(sp.name, "cvc5") {
		// cvc5 wants a logic; ALL covers UFNIA + quantifiers
		if !strings.Contains(q, "(set-logic") {
			q = strings.Replace(q, "(set-option :produce-models true)\n", "(set-option :produce-models true)\n(set-logic ALL)\n", 1)
			if !strings.Contains(q, "(set-logic") {
				q = "(set-logic ALL)\n" + q
			}
		}
	}
	os.WriteFile(fn, []byte(q), 0o644)
	if dumpQueries != "" {
		os.WriteFile(filepath.Join(dumpQueries, filepath.Base(fn)), []byte(q), 0o644)
	}
	defer os.Remove(fn)
	ctx, cancel := context.WithTimeout(parent, time.Duration(timeoutMs+3000)*time.Millisecond)
	defer cancel()
	a := sp.args(fn, timeoutMs)
	cmd := exec.CommandContext(ctx, a[0], a[1:]...)
	// the solver must not outlive this process
	cmd.SysProcAttr = &syscall.SysProcAttr{Pdeathsig: syscall.SIGKILL}
	var out bytes.Buffer
	cmd.Stdout = &out
	cmd.Stderr = &out
	t0 := time.Now()
	cmd.Run()
	ms := time.Since(t0).Milliseconds()
	text := out.String()
	first := ""
	for _, ln := range strings.Split(text, "\n") {
		ln = strings.TrimSpace(ln)
		if ln == "" || strings.HasPrefix(ln, "WARNING") || strings.HasPrefix(ln, "(warning") {
			continue
		}
		first = ln
		break
	}
	st := "unknown"
	switch first {
	case "unsat":
		st = "unsat"
	case "sat":
		st = "sat"
	}
	return solveResult{status: st, solver: sp.name, millis: ms, output: text}
}

// solvePortfolio runs z3-new first (it decides nearly everything at once); if it
// does not answer, the two other solvers are raced.
func solvePortfolio(query string, timeoutMs int) solveResult {
	quick := timeoutMs
	if quick > 3000 {
		quick = 3000
	}
	r := runSolver(solvers[0], query, quick)
	if r.status != "unknown" {
		return r
	}
	ch := make(chan solveResult, 3)
	ctx, cancel := context.WithCancel(context.Background())
	defer cancel() // stops the solvers still running once one has answered
	for _, sp := range []solverSpec{solvers[1], solvers[2], solvers[0]} {
		sp := sp
		go func() { ch <- runSolverCtx(ctx, sp, query, timeoutMs) }()
	}
	var last solveResult
	total := r.millis
	for i := 0; i < 3; i++ {
		x := <-ch
		if x.status != "unknown" {
			x.millis += total
			return x
		}
		last = x
	}
	last.millis += total
	return last
}

var valRe = regexp.MustCompile(`\(\s*([^\s()]+|\([^()]*\))\s+(\(-\s*\d+\)|-?\d+|true|false)\s*\)`)

// parseValues extracts (name value) pairs from a get-value answer.
func parseValues(out string) map[string]string {
	res := map[string]string{}
	i := strings.Index(out, "(")
	if i < 0 {
		return res
	}
	for _, m := range valRe.FindAllStringSubmatch(out[i:], -1) {
		v := strings.ReplaceAll(strings.ReplaceAll(strings.ReplaceAll(m[2], "(", ""), ")", ""), " ", "")
		res[m[1]] = v
	}
	return res
}

// renderObligation prepares the SMT queries of an obligation (one per alternative).
// skipHyps: indices of hypotheses to leave out (assumptions of failed obligations).
const maxFailures = 8

var skipHyps map[int]bool
var dumpCtr int

func renderObligation(ex *Exec, o *Obligation, wantModel bool) []string {
	goals := o.Alts
	if len(goals) == 0 {
		goals = []*Term{o.Goal}
	}
	var qs []string
	for _, g := range goals {
		if g.IsTrue() {
			o.Status, o.Solver = "discharged", "syntactic"
			return nil
		}
		ng := Not(g)
		hs := ex.hyps[:o.NHyps]
		if len(skipHyps) > 0 {
			hs = nil
			for i, h := range ex.hyps[:o.NHyps] {
				if !skipHyps[i] {
					hs = append(hs, h)
				}
			}
		}
		asserts := relevantHyps(hs, ng)
		asserts = append(asserts, ng)
		q := RenderQuery(asserts, o.ValTerms, ex.quant, "", wantModel)
		if dn := os.Getenv("IKEVERIF_DUMPNAME"); dn != "" && strings.Contains(o.Name, dn) {
			dumpCtr++
			os.WriteFile(fmt.Sprintf("/tmp/dump_%d.smt2", dumpCtr-1), []byte("; "+o.Name+"\n"+q), 0o644)
		}
		qs = append(qs, q)
	}
	return qs
}

func solveRendered(o *Obligation, qs []string, timeoutMs int) {
	var last solveResult
	for gi, q := range qs {
		r := solvePortfolio(q, timeoutMs)
		o.Millis += r.millis
		last = r
		if r.status == "unsat" {
			o.Status = "discharged"
			o.Solver = r.solver
			if len(o.Alts) > 0 {
				o.Raw += fmt.Sprintf(" ; proved with alternative %d", gi)
			}
			return
		}
	}
	o.Solver = last.solver
	o.Raw += last.output
	if last.status == "sat" {
		o.Status = "refuted"
		o.Model = parseValues(last.output)
	} else {
		o.Status = "unknown"
	}
}

// solveAll decides the undecided obligations (queries rendered serially, solved in parallel).
func solveAll(ex *Exec, obls []*Obligation, timeoutMs int, wantModel bool, workers int) {
	type job struct {
		o  *Obligation
		qs []string
	}
	var jobs []job
	for _, o := range obls {
		if o.Status != "" {
			continue
		}
		if len(o.Alts) == 0 && o.Goal == nil {
			o.Status = "unknown"
			continue
		}
		qs := renderObligation(ex, o, wantModel)
		if o.Status != "" {
			continue
		}
		jobs = append(jobs, job{o, qs})
	}
	var wg sync.WaitGroup
	ch := make(chan job)
	var nFail int32
	for i := 0; i < workers; i++ {
		wg.Add(1)
		go func() {
			defer wg.Done()
			for j := range ch {
				if wantModel && atomic.LoadInt32(&nFail) >= maxFailures {
					// the verdict is clear; the remaining obligations would only cost time
					j.o.Status, j.o.Raw = "skipped", "not decided: the function already has many failing obligations"
					continue
				}
				solveRendered(j.o, j.qs, timeoutMs)
				if j.o.Status != "discharged" {
					atomic.AddInt32(&nFail, 1)
				}
			}
		}()
	}
	for _, j := range jobs {
		ch <- j
	}
	close(ch)
	wg.Wait()
	// second chance: an obligation left undecided under full parallel load is retried
	// with little concurrency and three times the budget (a timeout under load is not a
	// verdict)
	var retry []job
	for _, j := range jobs {
		if j.o.Status == "unknown" && wantModel && atomic.LoadInt32(&nFail) < maxFailures {
			retry = append(retry, j)
		}
	}
	if len(retry) > 0 && len(retry) <= 12 {
		ch2 := make(chan job)
		var wg2 sync.WaitGroup
		for i := 0; i < 2; i++ {
			wg2.Add(1)
			go func() {
				defer wg2.Done()
				for j := range ch2 {
					j.o.Status, j.o.Raw = "", ""
					solveRendered(j.o, j.qs, timeoutMs*3)
				}
			}()
		}
		for _, j := range retry {
			ch2 <- j
		}
		close(ch2)
		wg2.Wait()
	}
}

// relevantHyps drops quantified hypotheses whose trigger symbols (functions applied
// to a bound variable) do not occur in the goal: they cannot contribute an
// instance and only slow the solvers down.
func relevantHyps(hyps []*Term, goal *Term) []*Term {
	hasQ := false
	for _, h := range hyps {
		if h.op == "forall" {
			hasQ = true
			break
		}
	}
	if !hasQ {
		return append([]*Term{}, hyps...)
	}
	syms := map[string]bool{}
	seen := map[int]bool{}
	var walk func(t *Term)
	walk = func(t *Term) {
		if seen[t.id] {
			return
		}
		seen[t.id] = true
		if t.op == "app" {
			syms[t.name] = true
		}
		for _, a := range t.args {
			walk(a)
		}
	}
	walk(goal)
	// ground hypotheses are all kept, so their symbols count too (an extensionality
	// instance among them is what connects a goal "v = w" to the definitions of v, w)
	for _, h := range hyps {
		if h.op != "forall" {
			walk(h)
		}
	}
	var out []*Term
	for _, h := range hyps {
		if h.op != "forall" {
			out = append(out, h)
			continue
		}
		rel := false
		s2 := map[int]bool{}
		var w2 func(t *Term)
		w2 = func(t *Term) {
			if s2[t.id] || rel || !containsBound(t) {
				return
			}
			s2[t.id] = true
			if t.op == "app" && syms[t.name] {
				rel = true
				return
			}
			for _, a := range t.args {
				w2(a)
			}
		}
		w2(h.args[0])
		if rel {
			out = append(out, h)
		}
	}
	return out
}
