package main

// Hash-consed SMT terms over Int and Bool with
//   - linear normal form for sums (so that off+4+4 and off+8 are the same node),
//   - interval bounds carried by every Int term (used to elide wrap-arounds that
//     provably cannot happen and to fold comparisons),
//   - exact Go semantics for fixed-width arithmetic (explicit mod 2^w).
// Everything the solver sees is printed from these terms; nothing is idealised.

import (
	"fmt"
	"math/big"
	"sort"
	"strings"
)

type Sort uint8

const (
	SInt Sort = iota
	SBool
)

func (s Sort) String() string {
	if s == SBool {
		return "Bool"
	}
	return "Int"
}

type Term struct {
	id    int
	op    string // const var app + * div mod ite = < <= and or not
	args  []*Term
	k     *big.Int // const value (Int) or 0/1 (Bool); coefficient for "*" (k * args[0])
	name  string   // var / app name
	sort  Sort
	lo    *big.Int // inclusive bounds, nil = unbounded
	hi    *big.Int
	decl  bool    // leaf (var/app) whose bounds are axioms to be asserted
	bound bool    // bound variable of a quantifier
	bvars []*Term // op "forall": the bound variables
	pats  []*Term // op "forall": explicit trigger terms (optional)
	hasBV int8    // 0 unknown, 1 no, 2 yes: contains a bound variable
}

type TermStore struct {
	tab   map[string]*Term
	next  int
	funcs map[string]*FuncDecl // uninterpreted functions
	vars  map[string]*Term
	fresh int
}

type FuncDecl struct {
	name string
	args []Sort
	ret  Sort
}

var TS = newTermStore()

func newTermStore() *TermStore {
	return &TermStore{tab: map[string]*Term{}, funcs: map[string]*FuncDecl{}, vars: map[string]*Term{}}
}

func bi(n int64) *big.Int { return big.NewInt(n) }

func pow2(n uint) *big.Int { return new(big.Int).Lsh(big.NewInt(1), n) }

func (ts *TermStore) intern(t *Term) *Term {
	var sb strings.Builder
	sb.WriteString(t.op)
	sb.WriteByte('|')
	sb.WriteString(t.name)
	sb.WriteByte('|')
	if t.k != nil {
		sb.WriteString(t.k.String())
	}
	for _, a := range t.args {
		fmt.Fprintf(&sb, "|%d", a.id)
	}
	key := sb.String()
	if e, ok := ts.tab[key]; ok {
		return e
	}
	ts.next++
	t.id = ts.next
	ts.tab[key] = t
	return t
}

// ---------- leaves ----------

func Int(n int64) *Term { return IntB(big.NewInt(n)) }

func IntB(n *big.Int) *Term {
	k := new(big.Int).Set(n)
	return TS.intern(&Term{op: "const", k: k, sort: SInt, lo: k, hi: k})
}

var (
	tTrue  *Term
	tFalse *Term
)

func True() *Term {
	if tTrue == nil {
		tTrue = TS.intern(&Term{op: "const", k: bi(1), sort: SBool, name: "b"})
	}
	return tTrue
}

func False() *Term {
	if tFalse == nil {
		tFalse = TS.intern(&Term{op: "const", k: bi(0), sort: SBool, name: "b"})
	}
	return tFalse
}

func Bool(b bool) *Term {
	if b {
		return True()
	}
	return False()
}

func (t *Term) IsConst() bool { return t.op == "const" }
func (t *Term) IsTrue() bool  { return t == True() }
func (t *Term) IsFalse() bool { return t == False() }

func (t *Term) ConstInt() (int64, bool) {
	if t.op == "const" && t.sort == SInt && t.k.IsInt64() {
		return t.k.Int64(), true
	}
	return 0, false
}

func sanitize(s string) string {
	var sb strings.Builder
	for _, r := range s {
		switch {
		case r >= 'a' && r <= 'z', r >= 'A' && r <= 'Z', r >= '0' && r <= '9', r == '_', r == '.', r == '$', r == '!':
			sb.WriteRune(r)
		default:
			fmt.Fprintf(&sb, "_%02x", r)
		}
	}
	return sb.String()
}

// Var returns the variable of that name (created on first use).
func Var(name string, s Sort, lo, hi *big.Int) *Term {
	name = sanitize(name)
	if v, ok := TS.vars[name]; ok {
		return v
	}
	v := TS.intern(&Term{op: "var", name: name, sort: s, lo: lo, hi: hi, decl: true})
	TS.vars[name] = v
	return v
}

// Fresh returns a new variable with a unique name derived from hint.
func Fresh(hint string, s Sort, lo, hi *big.Int) *Term {
	TS.fresh++
	return Var(fmt.Sprintf("%s!%d", sanitize(hint), TS.fresh), s, lo, hi)
}

func DeclFunc(name string, args []Sort, ret Sort) *FuncDecl {
	name = sanitize(name)
	if f, ok := TS.funcs[name]; ok {
		return f
	}
	f := &FuncDecl{name: name, args: args, ret: ret}
	TS.funcs[name] = f
	return f
}

// App applies an uninterpreted function; lo/hi are axioms about every application.
func App(f *FuncDecl, lo, hi *big.Int, args ...*Term) *Term {
	if len(args) != len(f.args) {
		panic("App arity " + f.name)
	}
	return TS.intern(&Term{op: "app", name: f.name, args: args, sort: f.ret, lo: lo, hi: hi, decl: lo != nil || hi != nil})
}

// BoundVar makes a fresh variable meant to be bound by Forall.
func BoundVar(hint string, lo, hi *big.Int) *Term {
	TS.fresh++
	v := Var(fmt.Sprintf("qv!%s!%d", sanitize(hint), TS.fresh), SInt, lo, hi)
	v.bound = true
	v.decl = false
	return v
}

// containsBound: t mentions a bound variable.
func containsBound(t *Term) bool {
	if t.hasBV != 0 {
		return t.hasBV == 2
	}
	r := t.bound
	if !r {
		for _, a := range t.args {
			if containsBound(a) {
				r = true
				break
			}
		}
	}
	if r {
		t.hasBV = 2
	} else {
		t.hasBV = 1
	}
	return r
}

func collectBound(t *Term, seen map[int]bool, out *[]*Term) {
	if seen[t.id] || !containsBound(t) {
		return
	}
	seen[t.id] = true
	if t.bound {
		*out = append(*out, t)
	}
	for _, a := range t.args {
		collectBound(a, seen, out)
	}
}

// substTerm replaces every occurrence of `from` in t by `to`, rebuilding through the
// simplifying constructors.
func substTerm(t, from, to *Term, memo map[int]*Term) *Term {
	if t == from {
		return to
	}
	if len(t.args) == 0 || !containsBound(t) {
		return t
	}
	if r, ok := memo[t.id]; ok {
		return r
	}
	as := make([]*Term, len(t.args))
	for i, a := range t.args {
		as[i] = substTerm(a, from, to, memo)
	}
	var r *Term
	switch t.op {
	case "app":
		r = App(TS.funcs[t.name], t.lo, t.hi, as...)
	case "+":
		r = Add(as...)
	case "*":
		r = MulC(t.k, as[0])
	case "mul":
		r = Mul(as[0], as[1])
	case "div":
		r = EDiv(as[0], as[1])
	case "mod":
		r = EMod(as[0], as[1])
	case "ite":
		r = Ite(as[0], as[1], as[2])
	case "=":
		r = Eq(as[0], as[1])
	case "<":
		r = Lt(as[0], as[1])
	case "<=":
		r = Le(as[0], as[1])
	case "and":
		r = And(as...)
	case "or":
		r = Or(as...)
	case "not":
		r = Not(as[0])
	default:
		panic("substTerm: op " + t.op)
	}
	memo[t.id] = r
	return r
}

// triggerShift looks for an application f(..., v + rest, ...) in t and returns rest:
// re-indexing the quantifier by v' = v + rest makes the trigger free of arithmetic.
func triggerShift(t, v *Term, seen map[int]bool) *Term {
	if seen[t.id] || !containsBound(t) {
		return nil
	}
	seen[t.id] = true
	if t.op == "app" {
		for _, a := range t.args {
			if a.op == "+" {
				hasV := false
				var rest []*Term
				for _, x := range a.args {
					if x == v {
						hasV = true
					} else {
						rest = append(rest, x)
					}
				}
				if hasV {
					r := Add(rest...)
					if !containsBound(r) {
						return r
					}
				}
			}
		}
	}
	for _, a := range t.args {
		if r := triggerShift(a, v, seen); r != nil {
			return r
		}
	}
	return nil
}

// Forall closes body over the bound variables it mentions (type ranges of the
// variables become guards).
func Forall(body *Term) *Term {
	var bv []*Term
	collectBound(body, map[int]bool{}, &bv)
	if len(bv) == 0 {
		return body
	}
	// re-index so that heap reads under the quantifier are f(ref, v') with v' bound
	for i, v := range bv {
		if rest := triggerShift(body, v, map[int]bool{}); rest != nil {
			nv := BoundVar("j", nil, nil)
			var g []*Term
			shifted := Sub(nv, rest)
			if v.lo != nil {
				g = append(g, Le(IntB(v.lo), shifted))
			}
			if v.hi != nil {
				g = append(g, Le(shifted, IntB(v.hi)))
			}
			body = substTerm(body, v, shifted, map[int]*Term{})
			if len(g) > 0 {
				body = Implies(And(g...), body)
			}
			bv[i] = nv
		}
	}
	bv = nil
	collectBound(body, map[int]bool{}, &bv)
	if len(bv) == 0 {
		return body
	}
	var guards []*Term
	for _, v := range bv {
		if v.lo != nil {
			guards = append(guards, TS.intern(&Term{op: "<=", args: []*Term{IntB(v.lo), v}, sort: SBool}))
		}
		if v.hi != nil {
			guards = append(guards, TS.intern(&Term{op: "<=", args: []*Term{v, IntB(v.hi)}, sort: SBool}))
		}
	}
	if len(guards) > 0 {
		body = Implies(And(guards...), body)
	}
	t := &Term{op: "forall", args: []*Term{body}, sort: SBool, bvars: bv}
	for _, v := range bv {
		t.name += fmt.Sprintf(",%d", v.id)
	}
	r := TS.intern(t)
	r.hasBV = 1
	return r
}

// ForallNoShift closes body over its bound variables without re-indexing.
func ForallNoShift(body *Term) *Term { return forallRaw(body, nil) }

// ForallPat: like ForallNoShift with explicit trigger terms.
func ForallPat(body *Term, pats ...*Term) *Term { return forallRaw(body, pats) }

func forallRaw(body *Term, pats []*Term) *Term {
	if body.op == "forall" {
		return body
	}
	var bv []*Term
	collectBound(body, map[int]bool{}, &bv)
	if len(bv) == 0 {
		return body
	}
	var guards []*Term
	for _, v := range bv {
		if v.lo != nil {
			guards = append(guards, TS.intern(&Term{op: "<=", args: []*Term{IntB(v.lo), v}, sort: SBool}))
		}
		if v.hi != nil {
			guards = append(guards, TS.intern(&Term{op: "<=", args: []*Term{v, IntB(v.hi)}, sort: SBool}))
		}
	}
	if len(guards) > 0 {
		body = Implies(And(guards...), body)
	}
	t := &Term{op: "forall", args: []*Term{body}, sort: SBool, bvars: bv, pats: pats}
	for _, v := range bv {
		t.name += fmt.Sprintf(",%d", v.id)
	}
	for _, q := range pats {
		t.name += fmt.Sprintf(";p%d", q.id)
	}
	r := TS.intern(t)
	r.hasBV = 1
	return r
}

// ---------- linear arithmetic normal form ----------

type lin struct {
	c     *big.Int
	terms map[int]*big.Int
	atoms map[int]*Term
}

func newLin() *lin { return &lin{c: new(big.Int), terms: map[int]*big.Int{}, atoms: map[int]*Term{}} }

func (l *lin) addTerm(t *Term, coef *big.Int) {
	switch {
	case t.op == "const":
		l.c.Add(l.c, new(big.Int).Mul(t.k, coef))
	case t.op == "+":
		for _, a := range t.args {
			l.addTerm(a, coef)
		}
	case t.op == "*":
		l.addTerm(t.args[0], new(big.Int).Mul(t.k, coef))
	default:
		if c, ok := l.terms[t.id]; ok {
			c.Add(c, coef)
			if c.Sign() == 0 {
				delete(l.terms, t.id)
				delete(l.atoms, t.id)
			}
		} else if coef.Sign() != 0 {
			l.terms[t.id] = new(big.Int).Set(coef)
			l.atoms[t.id] = t
		}
	}
}

// bitField recognises t = (v div 2^a) mod 2^w  (a may be 0, the div absent).
func bitField(t *Term) (v *Term, a, w uint, ok bool) {
	if t.op == "div" && t.args[1].op == "const" && t.args[0].hi != nil && t.args[0].lo != nil && t.args[0].lo.Sign() >= 0 {
		// topmost field: v div 2^a with v < 2^(a+w)
		d := t.args[1].k
		if d.Sign() > 0 && new(big.Int).And(d, new(big.Int).Sub(d, bi(1))).Sign() == 0 {
			a = uint(d.BitLen() - 1)
			n := uint(t.args[0].hi.BitLen())
			if n > a {
				return t.args[0], a, n - a, true
			}
		}
		return
	}
	if t.op != "mod" || t.args[1].op != "const" {
		return
	}
	m := t.args[1].k
	if m.Sign() <= 0 || new(big.Int).And(m, new(big.Int).Sub(m, bi(1))).Sign() != 0 {
		return
	}
	w = uint(m.BitLen() - 1)
	inner := t.args[0]
	if inner.op == "div" && inner.args[1].op == "const" {
		d := inner.args[1].k
		if d.Sign() > 0 && new(big.Int).And(d, new(big.Int).Sub(d, bi(1))).Sign() == 0 {
			return inner.args[0], uint(d.BitLen() - 1), w, true
		}
		return
	}
	return inner, 0, w, true
}

// recombine merges 2^a*field(v,a,w) + 2^(a+w)*field(v,a+w,w2) into 2^a*field(v,a,w+w2).
func (l *lin) recombine() {
	for changed := true; changed; {
		changed = false
		type fld struct {
			id   int
			v    *Term
			a, w uint
		}
		var fs []fld
		for id, at := range l.atoms {
			v, a, w, ok := bitField(at)
			if !ok || !nonneg(v) {
				continue
			}
			if l.terms[id].Cmp(pow2(a)) != 0 {
				continue
			}
			fs = append(fs, fld{id, v, a, w})
		}
	outer:
		for _, x := range fs {
			for _, y := range fs {
				if x.id != y.id && x.v == y.v && x.a+x.w == y.a {
					delete(l.terms, x.id)
					delete(l.atoms, x.id)
					delete(l.terms, y.id)
					delete(l.atoms, y.id)
					l.addTerm(bitsField(x.v, x.a, x.w+y.w), pow2(x.a))
					changed = true
					break outer
				}
			}
		}
	}
}

// liftIte: when two or more summands are ite's on the same condition, hoist it:
// Σ k_i*ite(c,a_i,b_i) + r  =  ite(c, Σ k_i*a_i + r, Σ k_i*b_i + r).
func (l *lin) liftIte() *Term {
	count := map[int]int{}
	var best *Term
	for _, at := range l.atoms {
		if at.op == "ite" {
			c := at.args[0]
			count[c.id]++
			if count[c.id] >= 2 && (best == nil || c.id < best.id) {
				best = c
			}
		}
	}
	if best == nil {
		return nil
	}
	a, b := newLin(), newLin()
	a.c.Set(l.c)
	b.c.Set(l.c)
	for id, at := range l.atoms {
		co := l.terms[id]
		if at.op == "ite" && at.args[0] == best {
			a.addTerm(at.args[1], co)
			b.addTerm(at.args[2], co)
		} else {
			a.addTerm(at, co)
			b.addTerm(at, co)
		}
	}
	return Ite(best, a.build(), b.build())
}

func (l *lin) build() *Term {
	if len(l.terms) >= 2 {
		l.recombine()
		if len(l.terms) >= 2 {
			if t := l.liftIte(); t != nil {
				return t
			}
		}
	}
	ids := make([]int, 0, len(l.terms))
	for id := range l.terms {
		ids = append(ids, id)
	}
	sort.Ints(ids)
	var args []*Term
	for _, id := range ids {
		c := l.terms[id]
		a := l.atoms[id]
		if c.Cmp(bi(1)) == 0 {
			args = append(args, a)
		} else {
			args = append(args, mkScaled(c, a))
		}
	}
	if len(args) == 0 {
		return IntB(l.c)
	}
	if l.c.Sign() != 0 {
		args = append(args, IntB(l.c))
	}
	if len(args) == 1 {
		return args[0]
	}
	// bounds
	var lo, hi *big.Int
	lo, hi = new(big.Int), new(big.Int)
	for _, a := range args {
		if lo != nil {
			if a.lo == nil {
				lo = nil
			} else {
				lo.Add(lo, a.lo)
			}
		}
		if hi != nil {
			if a.hi == nil {
				hi = nil
			} else {
				hi.Add(hi, a.hi)
			}
		}
	}
	return TS.intern(&Term{op: "+", args: args, sort: SInt, lo: lo, hi: hi})
}

func mkScaled(c *big.Int, a *Term) *Term {
	var lo, hi *big.Int
	if c.Sign() > 0 {
		if a.lo != nil {
			lo = new(big.Int).Mul(a.lo, c)
		}
		if a.hi != nil {
			hi = new(big.Int).Mul(a.hi, c)
		}
	} else {
		if a.hi != nil {
			lo = new(big.Int).Mul(a.hi, c)
		}
		if a.lo != nil {
			hi = new(big.Int).Mul(a.lo, c)
		}
	}
	return TS.intern(&Term{op: "*", k: new(big.Int).Set(c), args: []*Term{a}, sort: SInt, lo: lo, hi: hi})
}

func Add(ts ...*Term) *Term {
	l := newLin()
	for _, t := range ts {
		l.addTerm(t, bi(1))
	}
	return l.build()
}

func Sub(a, b *Term) *Term {
	l := newLin()
	l.addTerm(a, bi(1))
	l.addTerm(b, bi(-1))
	return l.build()
}

func Neg(a *Term) *Term { return Sub(Int(0), a) }

func MulC(c *big.Int, a *Term) *Term {
	l := newLin()
	l.addTerm(a, c)
	return l.build()
}

func Mul(a, b *Term) *Term {
	if a.op == "const" {
		return MulC(a.k, b)
	}
	if b.op == "const" {
		return MulC(b.k, a)
	}
	// nonlinear
	if a.id > b.id {
		a, b = b, a
	}
	var lo, hi *big.Int
	if a.lo != nil && a.hi != nil && b.lo != nil && b.hi != nil {
		cands := []*big.Int{new(big.Int).Mul(a.lo, b.lo), new(big.Int).Mul(a.lo, b.hi), new(big.Int).Mul(a.hi, b.lo), new(big.Int).Mul(a.hi, b.hi)}
		lo, hi = cands[0], cands[0]
		for _, c := range cands[1:] {
			if c.Cmp(lo) < 0 {
				lo = c
			}
			if c.Cmp(hi) > 0 {
				hi = c
			}
		}
	}
	return TS.intern(&Term{op: "mul", args: []*Term{a, b}, sort: SInt, lo: lo, hi: hi})
}

func nonneg(t *Term) bool { return t.lo != nil && t.lo.Sign() >= 0 }

// EDiv / EMod: SMT-LIB Euclidean division by a positive constant.
func EDivC(a *Term, c *big.Int) *Term {
	if c.Sign() <= 0 {
		panic("EDivC nonpositive")
	}
	if c.Cmp(bi(1)) == 0 {
		return a
	}
	if a.op == "const" {
		q, m := new(big.Int).DivMod(a.k, c, new(big.Int))
		_ = m
		return IntB(q)
	}
	var lo, hi *big.Int
	if a.lo != nil {
		lo, _ = new(big.Int).DivMod(a.lo, c, new(big.Int))
	}
	if a.hi != nil {
		hi, _ = new(big.Int).DivMod(a.hi, c, new(big.Int))
	}
	if lo != nil && hi != nil && lo.Cmp(hi) == 0 {
		return IntB(lo)
	}
	// (x mod m) div c with m | ... keep simple
	return TS.intern(&Term{op: "div", args: []*Term{a, IntB(c)}, sort: SInt, lo: lo, hi: hi})
}

func EModC(a *Term, c *big.Int) *Term {
	if c.Sign() <= 0 {
		panic("EModC nonpositive")
	}
	if c.Cmp(bi(1)) == 0 {
		return Int(0)
	}
	if a.op == "const" {
		_, m := new(big.Int).DivMod(a.k, c, new(big.Int))
		return IntB(m)
	}
	cm1 := new(big.Int).Sub(c, bi(1))
	if a.lo != nil && a.hi != nil && a.lo.Sign() >= 0 && a.hi.Cmp(cm1) <= 0 {
		return a
	}
	// (a mod m) mod c == a mod c when c | m
	if a.op == "mod" {
		m := a.args[1].k
		if new(big.Int).Mod(m, c).Sign() == 0 {
			return EModC(a.args[0], c)
		}
	}
	// drop summands that are multiples of c
	if a.op == "+" || a.op == "*" {
		l := newLin()
		l.addTerm(a, bi(1))
		changed := false
		for id, co := range l.terms {
			r := new(big.Int).Mod(co, c)
			if r.Cmp(co) != 0 {
				changed = true
				if r.Sign() == 0 {
					delete(l.terms, id)
					delete(l.atoms, id)
				} else {
					l.terms[id] = r
				}
			}
		}
		r := new(big.Int).Mod(l.c, c)
		if r.Cmp(l.c) != 0 {
			changed = true
			l.c = r
		}
		if changed {
			return EModC(l.build(), c)
		}
	}
	hi := cm1
	lo := bi(0)
	// tighter: if a within one period starting at multiple of c: skip
	return TS.intern(&Term{op: "mod", args: []*Term{a, IntB(c)}, sort: SInt, lo: lo, hi: hi})
}

// general (symbolic divisor) Euclidean div/mod — only used with nonneg operands
func EDiv(a, b *Term) *Term {
	if b.op == "const" && b.k.Sign() > 0 {
		return EDivC(a, b.k)
	}
	return TS.intern(&Term{op: "div", args: []*Term{a, b}, sort: SInt})
}

func EMod(a, b *Term) *Term {
	if b.op == "const" && b.k.Sign() > 0 {
		return EModC(a, b.k)
	}
	var hi *big.Int
	if b.hi != nil {
		hi = new(big.Int).Sub(b.hi, bi(1))
	}
	return TS.intern(&Term{op: "mod", args: []*Term{a, b}, sort: SInt, lo: bi(0), hi: hi})
}

// ---------- booleans ----------

func Not(a *Term) *Term {
	if a.IsTrue() {
		return False()
	}
	if a.IsFalse() {
		return True()
	}
	if a.op == "not" {
		return a.args[0]
	}
	return TS.intern(&Term{op: "not", args: []*Term{a}, sort: SBool})
}

func And(ts ...*Term) *Term {
	var args []*Term
	seen := map[int]bool{}
	var add func(t *Term) bool
	add = func(t *Term) bool {
		if t.IsTrue() {
			return true
		}
		if t.IsFalse() {
			return false
		}
		if t.op == "and" {
			for _, a := range t.args {
				if !add(a) {
					return false
				}
			}
			return true
		}
		if seen[t.id] {
			return true
		}
		seen[t.id] = true
		args = append(args, t)
		return true
	}
	for _, t := range ts {
		if !add(t) {
			return False()
		}
	}
	for _, a := range args {
		if a.op == "not" && seen[a.args[0].id] {
			return False()
		}
	}
	if len(args) == 0 {
		return True()
	}
	if len(args) == 1 {
		return args[0]
	}
	return TS.intern(&Term{op: "and", args: args, sort: SBool})
}

func Or(ts ...*Term) *Term {
	var args []*Term
	seen := map[int]bool{}
	var add func(t *Term) bool
	add = func(t *Term) bool {
		if t.IsFalse() {
			return true
		}
		if t.IsTrue() {
			return false
		}
		if t.op == "or" {
			for _, a := range t.args {
				if !add(a) {
					return false
				}
			}
			return true
		}
		if seen[t.id] {
			return true
		}
		seen[t.id] = true
		args = append(args, t)
		return true
	}
	for _, t := range ts {
		if !add(t) {
			return True()
		}
	}
	for _, a := range args {
		if a.op == "not" && seen[a.args[0].id] {
			return True()
		}
	}
	// (A and c) or (A and not c)  ==  A
	if len(args) >= 2 && len(args) <= 8 {
		for i := 0; i < len(args); i++ {
			for j := i + 1; j < len(args); j++ {
				if m := mergeComplement(args[i], args[j]); m != nil {
					rest := []*Term{m}
					for k, a := range args {
						if k != i && k != j {
							rest = append(rest, a)
						}
					}
					return Or(rest...)
				}
			}
		}
	}
	if len(args) == 0 {
		return False()
	}
	if len(args) == 1 {
		return args[0]
	}
	return TS.intern(&Term{op: "or", args: args, sort: SBool})
}

func Implies(a, b *Term) *Term { return Or(Not(a), b) }

func conjuncts(t *Term) []*Term {
	if t.op == "and" {
		return t.args
	}
	return []*Term{t}
}

// mergeComplement: x = A∧c, y = A∧¬c  →  A  (nil if not of that shape)
func mergeComplement(x, y *Term) *Term {
	cx, cy := conjuncts(x), conjuncts(y)
	if len(cx) != len(cy) {
		return nil
	}
	inY := map[int]bool{}
	for _, t := range cy {
		inY[t.id] = true
	}
	var onlyX *Term
	var common []*Term
	for _, t := range cx {
		if inY[t.id] {
			common = append(common, t)
		} else if onlyX == nil {
			onlyX = t
		} else {
			return nil
		}
	}
	if onlyX == nil {
		return nil
	}
	if !inY[Not(onlyX).id] {
		return nil
	}
	return And(common...)
}

func Ite(c, a, b *Term) *Term {
	if c.IsTrue() {
		return a
	}
	if c.IsFalse() {
		return b
	}
	if a == b {
		return a
	}
	if a.sort == SBool {
		if a.IsTrue() && b.IsFalse() {
			return c
		}
		if a.IsFalse() && b.IsTrue() {
			return Not(c)
		}
		if a.IsTrue() {
			return Or(c, b)
		}
		if a.IsFalse() {
			return And(Not(c), b)
		}
		if b.IsTrue() {
			return Or(Not(c), a)
		}
		if b.IsFalse() {
			return And(c, a)
		}
		return TS.intern(&Term{op: "ite", args: []*Term{c, a, b}, sort: SBool})
	}
	if c.op == "not" {
		return Ite(c.args[0], b, a)
	}
	// ite(c, x, ite(c, y, z)) = ite(c, x, z)
	if b.op == "ite" && b.args[0] == c {
		return Ite(c, a, b.args[2])
	}
	if a.op == "ite" && a.args[0] == c {
		return Ite(c, a.args[1], b)
	}
	var lo, hi *big.Int
	if a.lo != nil && b.lo != nil {
		lo = a.lo
		if b.lo.Cmp(lo) < 0 {
			lo = b.lo
		}
	}
	if a.hi != nil && b.hi != nil {
		hi = a.hi
		if b.hi.Cmp(hi) > 0 {
			hi = b.hi
		}
	}
	return TS.intern(&Term{op: "ite", args: []*Term{c, a, b}, sort: SInt, lo: lo, hi: hi})
}

// diffBounds computes, without creating terms, whether a-b is a constant and the
// bounds of a-b.
func diffBounds(a, b *Term) (isConst bool, c, lo, hi *big.Int) {
	if a.op == "const" && b.op == "const" {
		d := new(big.Int).Sub(a.k, b.k)
		return true, d, d, d
	}
	// cheap interval test first
	if a.hi != nil && b.lo != nil {
		hi = new(big.Int).Sub(a.hi, b.lo)
	}
	if a.lo != nil && b.hi != nil {
		lo = new(big.Int).Sub(a.lo, b.hi)
	}
	if (lo != nil && lo.Sign() > 0) || (hi != nil && hi.Sign() < 0) {
		return false, nil, lo, hi
	}
	// exact linear difference
	l := newLin()
	l.addTerm(a, bi(1))
	l.addTerm(b, bi(-1))
	if len(l.terms) == 0 {
		return true, l.c, l.c, l.c
	}
	lo2, hi2 := new(big.Int).Set(l.c), new(big.Int).Set(l.c)
	for id, co := range l.terms {
		at := l.atoms[id]
		var tlo, thi *big.Int
		if co.Sign() > 0 {
			if at.lo != nil {
				tlo = new(big.Int).Mul(at.lo, co)
			}
			if at.hi != nil {
				thi = new(big.Int).Mul(at.hi, co)
			}
		} else {
			if at.hi != nil {
				tlo = new(big.Int).Mul(at.hi, co)
			}
			if at.lo != nil {
				thi = new(big.Int).Mul(at.lo, co)
			}
		}
		if lo2 != nil {
			if tlo == nil {
				lo2 = nil
			} else {
				lo2.Add(lo2, tlo)
			}
		}
		if hi2 != nil {
			if thi == nil {
				hi2 = nil
			} else {
				hi2.Add(hi2, thi)
			}
		}
	}
	return false, nil, lo2, hi2
}

func Eq(a, b *Term) *Term {
	if a == b {
		return True()
	}
	if a.sort == SBool {
		if a.IsTrue() {
			return b
		}
		if b.IsTrue() {
			return a
		}
		if a.IsFalse() {
			return Not(b)
		}
		if b.IsFalse() {
			return Not(a)
		}
		if a.id > b.id {
			a, b = b, a
		}
		return TS.intern(&Term{op: "=", args: []*Term{a, b}, sort: SBool})
	}
	isC, dc, dlo, dhi := diffBounds(a, b)
	if isC {
		return Bool(dc.Sign() == 0)
	}
	if dlo != nil && dlo.Sign() > 0 {
		return False()
	}
	if dhi != nil && dhi.Sign() < 0 {
		return False()
	}
	// an ite-tree with constant leaves compared with a constant: decide per leaf
	if a.op == "ite" && b.op == "const" && constLeafCount(a, 0) > 0 {
		return eqLeaves(a, b)
	}
	if b.op == "ite" && a.op == "const" && constLeafCount(b, 0) > 0 {
		return eqLeaves(b, a)
	}
	// push equality through ite with constant branches when cheap
	if a.op == "ite" && b.op == "const" && a.args[1].op != "ite" && a.args[2].op != "ite" {
		x, y := Eq(a.args[1], b), Eq(a.args[2], b)
		if x.IsConst() || y.IsConst() {
			return Ite(a.args[0], x, y)
		}
	}
	if b.op == "ite" && a.op == "const" {
		return Eq(b, a)
	}
	if a.id > b.id {
		a, b = b, a
	}
	return TS.intern(&Term{op: "=", args: []*Term{a, b}, sort: SBool})
}

func Ne(a, b *Term) *Term { return Not(Eq(a, b)) }

// constLeafCount: number of leaves if t is an ite-tree whose leaves are all
// constants (at most 16 leaves), else 0.
func constLeafCount(t *Term, depth int) int {
	if t.op == "const" {
		return 1
	}
	if t.op != "ite" || depth > 6 {
		return 0
	}
	x := constLeafCount(t.args[1], depth+1)
	if x == 0 {
		return 0
	}
	y := constLeafCount(t.args[2], depth+1)
	if y == 0 || x+y > 16 {
		return 0
	}
	return x + y
}

func eqLeaves(t, c *Term) *Term {
	if t.op == "const" {
		return Bool(t.k.Cmp(c.k) == 0)
	}
	return Ite(t.args[0], eqLeaves(t.args[1], c), eqLeaves(t.args[2], c))
}

func Le(a, b *Term) *Term {
	isC, dc, dlo, dhi := diffBounds(b, a) // want b-a >= 0
	if isC {
		return Bool(dc.Sign() >= 0)
	}
	if dlo != nil && dlo.Sign() >= 0 {
		return True()
	}
	if dhi != nil && dhi.Sign() < 0 {
		return False()
	}
	return TS.intern(&Term{op: "<=", args: []*Term{a, b}, sort: SBool})
}

func Lt(a, b *Term) *Term {
	isC, dc, dlo, dhi := diffBounds(b, a) // want b-a > 0
	if isC {
		return Bool(dc.Sign() > 0)
	}
	if dlo != nil && dlo.Sign() > 0 {
		return True()
	}
	if dhi != nil && dhi.Sign() <= 0 {
		return False()
	}
	return TS.intern(&Term{op: "<", args: []*Term{a, b}, sort: SBool})
}

func Ge(a, b *Term) *Term { return Le(b, a) }
func Gt(a, b *Term) *Term { return Lt(b, a) }

func Min(a, b *Term) *Term { return Ite(Le(a, b), a, b) }

// ---------- Go fixed-width semantics ----------

type IntKind struct {
	bits   uint
	signed bool
}

func (k IntKind) lo() *big.Int {
	if !k.signed {
		return bi(0)
	}
	return new(big.Int).Neg(pow2(k.bits - 1))
}

func (k IntKind) hi() *big.Int {
	if !k.signed {
		return new(big.Int).Sub(pow2(k.bits), bi(1))
	}
	return new(big.Int).Sub(pow2(k.bits-1), bi(1))
}

func within(t *Term, lo, hi *big.Int) bool {
	return t.lo != nil && t.hi != nil && t.lo.Cmp(lo) >= 0 && t.hi.Cmp(hi) <= 0
}

// Wrap reduces a mathematical integer to the value a Go variable of kind k holds.
func Wrap(t *Term, k IntKind) *Term {
	if within(t, k.lo(), k.hi()) {
		return t
	}
	m := pow2(k.bits)
	if !k.signed {
		return EModC(t, m)
	}
	h := pow2(k.bits - 1)
	return Sub(EModC(Add(t, IntB(h)), m), IntB(h))
}

// GoDiv / GoRem: truncated division (divisor assumed non-zero; obligation is separate).
func GoDiv(a, b *Term) *Term {
	if nonneg(a) && b.lo != nil && b.lo.Sign() > 0 {
		return EDiv(a, b)
	}
	// sign-split
	absA := Ite(Ge(a, Int(0)), a, Neg(a))
	absB := Ite(Ge(b, Int(0)), b, Neg(b))
	q := EDiv(absA, absB)
	same := Eq(Ge(a, Int(0)), Ge(b, Int(0)))
	return Ite(same, q, Neg(q))
}

func GoRem(a, b *Term) *Term {
	if nonneg(a) && b.lo != nil && b.lo.Sign() > 0 {
		return EMod(a, b)
	}
	absA := Ite(Ge(a, Int(0)), a, Neg(a))
	absB := Ite(Ge(b, Int(0)), b, Neg(b))
	r := EMod(absA, absB)
	return Ite(Ge(a, Int(0)), r, Neg(r))
}

// bit extraction on non-negative values
func bitsField(x *Term, from, width uint) *Term { // (x >> from) & (2^width-1)
	return EModC(EDivC(x, pow2(from)), pow2(width))
}

// AndC: x & c for non-negative x (unsigned kinds) and constant c >= 0.
func AndC(x *Term, c *big.Int, bits uint) *Term {
	if c.Sign() == 0 {
		return Int(0)
	}
	// decompose c into runs of ones
	var parts []*Term
	i := uint(0)
	for i < bits {
		if c.Bit(int(i)) == 0 {
			i++
			continue
		}
		j := i
		for j < bits && c.Bit(int(j)) == 1 {
			j++
		}
		f := bitsField(x, i, j-i)
		parts = append(parts, MulC(pow2(i), f))
		i = j
	}
	return Add(parts...)
}

// trailing zero bits known from structure (multiple of 2^n)
func alignOf(t *Term) uint {
	switch t.op {
	case "const":
		if t.k.Sign() == 0 {
			return 64
		}
		n := uint(0)
		for t.k.Bit(int(n)) == 0 {
			n++
		}
		return n
	case "*":
		n := uint(0)
		k := new(big.Int).Abs(t.k)
		for k.Bit(int(n)) == 0 {
			n++
		}
		return n + alignOf(t.args[0])
	case "+":
		m := uint(64)
		for _, a := range t.args {
			if x := alignOf(a); x < m {
				m = x
			}
		}
		return m
	case "ite":
		a, b := alignOf(t.args[1]), alignOf(t.args[2])
		if a < b {
			return a
		}
		return b
	}
	return 0
}

func bitLenHi(t *Term) (uint, bool) {
	if t.hi == nil || t.lo == nil || t.lo.Sign() < 0 {
		return 0, false
	}
	return uint(t.hi.BitLen()), true
}

// disjointBits: x and y provably have no common set bit
func disjointBits(x, y *Term) bool {
	if n, ok := bitLenHi(y); ok && alignOf(x) >= n {
		return true
	}
	if n, ok := bitLenHi(x); ok && alignOf(y) >= n {
		return true
	}
	return false
}

// bitwise ops on non-negative operands of width bits
func BitAnd(x, y *Term, bits uint) *Term {
	if x.op == "const" {
		return AndC(y, x.k, bits)
	}
	if y.op == "const" {
		return AndC(x, y.k, bits)
	}
	if disjointBits(x, y) {
		return Int(0)
	}
	var parts []*Term
	for i := uint(0); i < bits; i++ {
		bx, by := bitsField(x, i, 1), bitsField(y, i, 1)
		parts = append(parts, MulC(pow2(i), Ite(And(Eq(bx, Int(1)), Eq(by, Int(1))), Int(1), Int(0))))
	}
	return Add(parts...)
}

// tighten records bounds that hold for the term by construction.
func tighten(t *Term, lo, hi *big.Int) *Term {
	if t.op == "const" {
		return t
	}
	if t.lo == nil || t.lo.Cmp(lo) < 0 {
		t.lo = lo
	}
	if t.hi == nil || t.hi.Cmp(hi) > 0 {
		t.hi = hi
	}
	return t
}

func BitOr(x, y *Term, bits uint) *Term {
	if disjointBits(x, y) {
		return Add(x, y)
	}
	return tighten(Sub(Add(x, y), BitAnd(x, y, bits)), bi(0), new(big.Int).Sub(pow2(bits), bi(1)))
}

func BitXor(x, y *Term, bits uint) *Term {
	if disjointBits(x, y) {
		return Add(x, y)
	}
	return tighten(Sub(Add(x, y), MulC(bi(2), BitAnd(x, y, bits))), bi(0), new(big.Int).Sub(pow2(bits), bi(1)))
}

// ---------- printing ----------

func (t *Term) String() string { return t.StringLimit(4000) }

// StringLimit prints at most about n characters (terms are DAGs; a full print can
// be exponentially long).
func (t *Term) StringLimit(n int) string {
	var sb strings.Builder
	var w func(t *Term) bool
	w = func(t *Term) bool {
		if sb.Len() > n {
			return false
		}
		if len(t.args) == 0 {
			t.write(&sb, nil)
			return true
		}
		op := t.op
		switch op {
		case "app":
			op = t.name
		case "*":
			op = "* " + smtInt(t.k)
		case "mul":
			op = "*"
		}
		sb.WriteString("(" + op)
		for _, a := range t.args {
			sb.WriteByte(' ')
			if !w(a) {
				sb.WriteString("…")
				return false
			}
		}
		sb.WriteByte(')')
		return true
	}
	w(t)
	return sb.String()
}

func smtInt(k *big.Int) string {
	if k.Sign() < 0 {
		return "(- " + new(big.Int).Neg(k).String() + ")"
	}
	return k.String()
}

// write prints t; named maps term id -> name for shared sub-terms already defined.
func (t *Term) write(sb *strings.Builder, named map[int]string) {
	if named != nil {
		if n, ok := named[t.id]; ok {
			sb.WriteString(n)
			return
		}
	}
	switch t.op {
	case "const":
		if t.sort == SBool {
			if t.k.Sign() != 0 {
				sb.WriteString("true")
			} else {
				sb.WriteString("false")
			}
		} else {
			sb.WriteString(smtInt(t.k))
		}
	case "var":
		sb.WriteString(t.name)
	case "app":
		if len(t.args) == 0 {
			sb.WriteString(t.name)
			return
		}
		sb.WriteString("(" + t.name)
		for _, a := range t.args {
			sb.WriteByte(' ')
			a.write(sb, named)
		}
		sb.WriteByte(')')
	case "*":
		sb.WriteString("(* " + smtInt(t.k) + " ")
		t.args[0].write(sb, named)
		sb.WriteByte(')')
	case "forall":
		sb.WriteString("(forall (")
		for _, v := range t.bvars {
			sb.WriteString("(" + v.name + " Int)")
		}
		sb.WriteString(") ")
		if len(t.pats) > 0 {
			sb.WriteString("(! ")
		}
		t.args[0].write(sb, named)
		if len(t.pats) > 0 {
			sb.WriteString(" :pattern (")
			for _, q := range t.pats {
				q.write(sb, named)
			}
			sb.WriteString("))")
		}
		sb.WriteByte(')')
	default:
		op := t.op
		if op == "mul" {
			op = "*"
		}
		sb.WriteString("(" + op)
		for _, a := range t.args {
			sb.WriteByte(' ')
			a.write(sb, named)
		}
		sb.WriteByte(')')
	}
}

// Query renders a satisfiability query: asserts all of `asserts`, with shared
// sub-terms introduced by define-fun, leaf bounds asserted as axioms, and `values`
// requested from the model.
func RenderQuery(asserts []*Term, values []*Term, quantAxioms []string, logic string, producesModels bool) string {
	var sb strings.Builder
	if producesModels {
		sb.WriteString("(set-option :produce-models true)\n")
	}
	if logic != "" {
		sb.WriteString("(set-logic " + logic + ")\n")
	}
	// collect reachable terms in topological order, count references
	order := []*Term{}
	seen := map[int]bool{}
	refs := map[int]int{}
	var visit func(t *Term)
	visit = func(t *Term) {
		refs[t.id]++
		if seen[t.id] {
			return
		}
		seen[t.id] = true
		for _, a := range t.args {
			visit(a)
		}
		order = append(order, t)
	}
	for _, a := range asserts {
		visit(a)
	}
	for _, v := range values {
		visit(v)
	}
	// declarations
	declared := map[string]bool{}
	for _, t := range order {
		switch t.op {
		case "var":
			if !declared[t.name] && !t.bound {
				declared[t.name] = true
				fmt.Fprintf(&sb, "(declare-fun %s () %s)\n", t.name, t.sort)
			}
		case "app":
			if !declared[t.name] {
				declared[t.name] = true
				f := TS.funcs[t.name]
				sb.WriteString("(declare-fun " + t.name + " (")
				for i, s := range f.args {
					if i > 0 {
						sb.WriteByte(' ')
					}
					sb.WriteString(s.String())
				}
				sb.WriteString(") " + f.ret.String() + ")\n")
			}
		}
	}
	for _, q := range quantAxioms {
		sb.WriteString(q)
		sb.WriteByte('\n')
	}
	named := map[int]string{}
	for _, t := range order {
		if containsBound(t) {
			continue // lives under a quantifier: printed inline there
		}
		if len(t.args) == 0 {
			if t.decl {
				writeBounds(&sb, t, named)
			}
			continue
		}
		if refs[t.id] > 1 || t.decl || len(t.args) > 6 {
			name := fmt.Sprintf("n%d", t.id)
			sb.WriteString("(define-fun " + name + " () " + t.sort.String() + " ")
			t.write(&sb, named)
			sb.WriteString(")\n")
			named[t.id] = name
			if t.decl {
				writeBounds(&sb, t, named)
			}
		}
	}
	for _, a := range asserts {
		sb.WriteString("(assert ")
		a.write(&sb, named)
		sb.WriteString(")\n")
	}
	sb.WriteString("(check-sat)\n")
	if len(values) > 0 && producesModels {
		sb.WriteString("(get-value (")
		for i, v := range values {
			if i > 0 {
				sb.WriteByte(' ')
			}
			v.write(&sb, named)
		}
		sb.WriteString("))\n")
	}
	return sb.String()
}

func writeBounds(sb *strings.Builder, t *Term, named map[int]string) {
	if t.sort != SInt {
		return
	}
	if t.lo != nil {
		sb.WriteString("(assert (<= " + smtInt(t.lo) + " ")
		t.write(sb, named)
		sb.WriteString("))\n")
	}
	if t.hi != nil {
		sb.WriteString("(assert (<= ")
		t.write(sb, named)
		sb.WriteString(" " + smtInt(t.hi) + "))\n")
	}
}
