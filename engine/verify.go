package main

import (
	"fmt"
	"go/types"
	"sort"
	"strings"
	"time"

	"golang.org/x/tools/go/ssa"
)

type ParamInfo struct {
	Name string
	Type string
	// terms describing the parameter, for model extraction
	Int   *Term
	Bool  *Term
	Slice *SliceV
	Str   *StrV
}

type FnResult struct {
	Fn          string
	Obls        []*Obligation
	Covers      []*Obligation
	Unsupported []string
	Rounds      int
	Params      []ParamInfo
	Dropped     []string // Houdini candidates dropped
	Kept        []string
	WallMs      int64
	ex          *Exec
}

var inLo = new48neg()

func new48neg() *Term { return nil }

// symArg creates the symbolic value of a parameter.
func (ex *Exec) symArg(name string, t types.Type, pi *ParamInfo) Value {
	pre := "in." + ex.argPrefix + name
	maxLen := pow48
	if n, ok := ex.cfg.maxLen[name]; ok {
		maxLen = bi(n)
	}
	refLo := MulC(bi(-1), Int(1)).k // placeholder
	_ = refLo
	lo := bi(-(1 << 40))
	if ik, ok := intKindOf(t); ok {
		v := Var(pre, SInt, ik.lo(), ik.hi())
		pi.Int = v
		return v
	}
	if isBool(t) {
		v := Var(pre, SBool, nil, nil)
		pi.Bool = v
		return v
	}
	if isString(t) {
		s := StrV{Arr: Var(pre+".arr", SInt, lo, bi(-1)), Off: Var(pre+".off", SInt, bi(0), pow48), Len: Var(pre+".len", SInt, bi(0), maxLen)}
		pi.Str = &s
		return s
	}
	switch u := t.Underlying().(type) {
	case *types.Slice:
		s := SliceV{Arr: Var(pre+".arr", SInt, lo, bi(0)), Off: Var(pre+".off", SInt, bi(0), pow48),
			Len: Var(pre+".len", SInt, bi(0), maxLen), Cap: Var(pre+".cap", SInt, bi(0), pow48), Elem: u.Elem()}
		ex.assumeSliceWF(s)
		ex.inputArr[s.Arr.id] = true
		pi.Slice = &s
		return s
	case *types.Pointer:
		return PtrV{Ref: Var(pre, SInt, lo, bi(0)), T: u.Elem()}
	case *types.Interface:
		tag := Var(pre+".tag", SInt, bi(0), nil)
		data := Var(pre+".data", SInt, lo, bi(0))
		return IfaceV{Tag: tag, Val: data}
	}
	ex.unsupported("parameter type " + t.String())
	return ex.freshValue(t, pre, true)
}

type VerifyOpts struct {
	TimeoutMs    int
	Workers      int
	Verbose      bool
	OptionalOnly bool // only decide invariant / frame candidates (write-set computation)
}

func (P *Program) newExecFromInit(cfg *RunCfg) *Exec {
	ex := newExec(P, cfg)
	ex.mem = P.initMem.clone(ex)
	ex.hyps = append([]*Term{}, P.initHyps...)
	for _, h := range ex.hyps {
		ex.hypSeen[h.id] = true
	}
	ex.ctrBase, ex.ctrOff = Int(0), P.initCtr
	return ex
}

// VerifyFunction generates and decides every obligation of fn (callees inlined or
// used through their contracts), inferring loop invariants from templates.
func (P *Program) VerifyFunction(fn *ssa.Function, cfg *RunCfg, opts VerifyOpts) *FnResult {
	t0 := time.Now()
	res := &FnResult{Fn: fnName(fn)}
	if cfg == nil {
		cfg = newRunCfg()
	}
	var ex *Exec
	for round := 1; ; round++ {
		res.Rounds = round
		ex = P.newExecFromInit(cfg)
		ex.argPrefix = fn.Name() + "."
		res.Params = nil
		var args []Value
		for _, p := range fn.Params {
			pi := ParamInfo{Name: p.Name(), Type: p.Type().String()}
			args = append(args, ex.symArg(p.Name(), p.Type(), &pi))
			res.Params = append(res.Params, pi)
		}
		nModBefore := countMod(cfg)
		if cfg.fnScope != "" {
			ex.loops = append(ex.loops, &loopAct{key: cfg.fnScope, water: ex.ctr()})
			for i, p := range fn.Params {
				if pv, ok := args[i].(PtrV); ok {
					ex.scopeParams = append(ex.scopeParams, scopeParam{ref: pv.Ref, prefix: ex.allocBase(pv.T)})
				} else {
					ex.scopeParams = append(ex.scopeParams, scopeParam{})
				}
				_ = p
			}
		}
		if target := P.contractTarget(fn); target != "" {
			ex.modes = append(ex.modes, &contractMode{target: target, use: false})
		}
		ex.callFn(fn, args, True())
		if countMod(cfg) != nModBefore {
			continue // loop write-sets grew: rerun with the larger havoc
		}
		// decide optional obligations (Houdini candidates, frame candidates)
		var opt []*Obligation
		for _, o := range ex.obls {
			if o.Optional {
				opt = append(opt, o)
			}
		}
		solveAll(ex, opt, 4000, false, opts.Workers)
		changed := false
		for _, o := range opt {
			if o.Status == "discharged" {
				continue
			}
			if strings.HasPrefix(o.CandKey, "frame|") {
				k := strings.TrimPrefix(o.CandKey, "frame|")
				if !cfg.fnHavoc[k] {
					cfg.fnHavoc[k] = true // second tier first
					changed = true
				} else if !cfg.fullHavoc[k] {
					cfg.fullHavoc[k] = true
					changed = true
				}
			} else if !cfg.disabled[o.CandKey] {
				cfg.disabled[o.CandKey] = true
				res.Dropped = append(res.Dropped, o.CandKey)
				changed = true
			}
		}
		if !changed || round > 12 {
			break
		}
	}
	res.ex = ex
	res.Unsupported = ex.unsup
	if opts.OptionalOnly {
		return res
	}
	var final []*Obligation
	for _, o := range ex.obls {
		if !o.Optional {
			final = append(final, o)
		}
	}
	// model values wanted for refutations: the parameters
	var vt []*Term
	for _, p := range res.Params {
		switch {
		case p.Int != nil:
			vt = append(vt, p.Int)
		case p.Bool != nil:
			vt = append(vt, p.Bool)
		case p.Slice != nil:
			vt = append(vt, p.Slice.Len, p.Slice.Cap)
		case p.Str != nil:
			vt = append(vt, p.Str.Len)
		}
	}
	for _, o := range final {
		o.ValTerms = vt
	}
	solveAll(ex, final, opts.TimeoutMs, true, opts.Workers)
	// independence: an obligation that failed was nevertheless assumed afterwards
	// (assert-then-assume).  Re-decide the later obligations without those assumptions, so
	// that one property's failure cannot hide another's.
	skip := map[int]bool{}
	for iter := 0; iter < 5; iter++ {
		// (iterated: an obligation that only held because of a retracted assumption now
		// fails, and ITS assumption has to be retracted for the ones after it)
		first := -1
		grew := false
		for _, o := range final {
			if o.Status != "discharged" && o.Status != "skipped" && o.HypIdx >= 0 && o.HypIdx < len(ex.hyps) {
				if !skip[o.HypIdx] {
					skip[o.HypIdx] = true
					grew = true
				}
				if first < 0 || o.HypIdx < first {
					first = o.HypIdx
				}
			}
		}
		if !grew || len(skip) >= maxFailures {
			break
		}
		var again []*Obligation
		for _, o := range final {
			if o.Status == "discharged" && o.Solver != "syntactic" && o.NHyps > first {
				o.prevSolver, o.prevMillis = o.Solver, o.Millis
				o.Status, o.Solver = "", ""
				again = append(again, o)
			}
		}
		skipHyps = skip
		solveAll(ex, again, opts.TimeoutMs, true, opts.Workers)
		skipHyps = nil
		for _, o := range again {
			if o.Status != "discharged" {
				o.Raw = "holds only if an earlier failing obligation is assumed; " + o.Raw
			}
		}
	}
	res.Obls = final
	res.Covers = ex.covers
	seen := map[string]bool{}
	for _, o := range ex.obls {
		if o.Optional && o.Class == "cand" && !cfg.disabled[o.CandKey] && !seen[o.CandKey] {
			seen[o.CandKey] = true
			res.Kept = append(res.Kept, o.CandKey)
		}
	}
	sort.Strings(res.Kept)
	res.WallMs = time.Since(t0).Milliseconds()
	return res
}

func countMod(cfg *RunCfg) int {
	n := 0
	for _, m := range cfg.modKinds {
		n += len(m)
	}
	return n
}

func (r *FnResult) Summary() (total, discharged, refuted, unknown int) {
	for _, o := range r.Obls {
		total++
		switch o.Status {
		case "discharged":
			discharged++
		case "refuted":
			refuted++
		default:
			unknown++
		}
	}
	return
}

func (r *FnResult) Print(verbose bool) {
	t, d, rf, u := r.Summary()
	fmt.Printf("== %s: %d obligations, %d discharged, %d refuted, %d unknown (%d rounds, %d ms)\n", r.Fn, t, d, rf, u, r.Rounds, r.WallMs)
	for _, m := range r.Unsupported {
		fmt.Printf("   UNSUPPORTED: %s\n", m)
	}
	for _, o := range r.Obls {
		if o.Status != "discharged" || verbose {
			fmt.Printf("   [%s] %s (%s, %d ms)\n", o.Status, o.Name, o.Solver, o.Millis)
			if o.Class == "assert" && verbose && o.Goal != nil {
				fmt.Printf("        goal: %s\n", o.Goal.StringLimit(1500))
			}
			if o.Class == "variant" {
				fmt.Printf("        %s\n", o.Raw)
			}
			if o.Status == "refuted" {
				var ks []string
				for k, v := range o.Model {
					ks = append(ks, k+"="+v)
				}
				sort.Strings(ks)
				fmt.Printf("        model: %s\n", strings.Join(ks, " "))
			}
		}
	}
	if verbose {
		fmt.Printf("   kept invariants: %v\n   dropped: %v\n", r.Kept, r.Dropped)
	}
}

// contractTarget: fn is the contract wrapper of which function ("" if none).
func (P *Program) contractTarget(fn *ssa.Function) string {
	for t, sm := range P.summaries {
		if sm.Wrapper == fn {
			return t
		}
	}
	return ""
}
