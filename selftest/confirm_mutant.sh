#!/bin/bash
# confirm_mutant.sh <mutdir> : in a scratch worktree of /repo confirms (a) the patch applies and builds, (b) the existing
# suite passes with it, (c) the demonstration fails with the patch and passes without.  Prints CONFIRMED or the reason.
export GOFLAGS=-mod=mod GOPROXY=off GOSUMDB=off GOTOOLCHAIN=local
M=$(readlink -f "$1")
WT=$(mktemp -d /tmp/ikeconf.XXXXXX)
git -C /repo worktree add --detach "$WT" HEAD -q -f || { echo "cannot create worktree"; exit 2; }
trap 'git -C /repo worktree remove --force "$WT" 2>/dev/null; rm -rf "$WT"' EXIT
cd "$WT" || exit 2
demo=$M/demo_test.go.txt; [ -f "$demo" ] || demo=$(ls $M/*demo*test*.go* 2>/dev/null | head -1)
place=$(head -3 "$demo" | sed -n 's#.*place in: *\([^ ]*\).*#\1#p' | head -1)
[ -z "$place" ] && { echo "no place-in comment"; exit 2; }
case "$place" in */) dir=${place%/} ;; *.go) dir=$(dirname "$place") ;; *) dir=$place ;; esac
git apply "$M/patch.diff" || { echo "PATCH DOES NOT APPLY"; exit 1; }
go build ./... || { echo "BUILD FAILS"; exit 1; }
if ! go test -vet=off -count=1 ./... >/tmp/confirm_suite.$$ 2>&1; then echo "SUITE FAILS with patch"; tail -5 /tmp/confirm_suite.$$; rm -f /tmp/confirm_suite.$$; exit 1; fi
rm -f /tmp/confirm_suite.$$
cp "$demo" "$dir/zz_demo_test.go"
if timeout 300 go test -vet=off -count=1 ./$dir >/dev/null 2>&1; then echo "DEMO PASSES with patch (should fail)"; exit 1; fi
git checkout -q -- .
if ! timeout 300 go test -vet=off -count=1 ./$dir >/tmp/confirm_demo.$$ 2>&1; then echo "DEMO FAILS without patch"; tail -5 /tmp/confirm_demo.$$; rm -f /tmp/confirm_demo.$$; exit 1; fi
rm -f /tmp/confirm_demo.$$
echo CONFIRMED
