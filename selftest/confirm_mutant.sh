#!/bin/bash
# confirm_mutant.sh <worktree> <mutdir> : confirms (a) builds, (b) suite passes, (c) demo fails with / passes without the patch
export GOFLAGS=-mod=mod GOPROXY=off GOSUMDB=off GOTOOLCHAIN=local
WT=$1; M=$2
cd $WT || exit 2
git checkout -q -- . ; git clean -fdq -e 'mut_*' .
place=$(head -1 $M/demo_test.go.txt | sed -n 's#.*place in: *\([^ ]*\).*#\1#p'); place=${place%/}
[ -z "$place" ] && { echo "no place-in comment"; exit 2; }
[ "$place" = "." ] || [ "$place" = "root" ] && place="."
git apply $M/patch.diff || { echo "patch does not apply"; exit 2; }
go build ./... || { echo "BUILD FAILS"; git checkout -q -- .; exit 1; }
if ! go test -count=1 ./... >/tmp/confirm_suite.log 2>&1; then echo "SUITE FAILS with patch"; tail -5 /tmp/confirm_suite.log; git checkout -q -- .; exit 1; fi
cp $M/demo_test.go.txt $place/zz_demo_test.go
if timeout 120 go test -count=1 -run . ./$place >/tmp/confirm_demo1.log 2>&1; then echo "DEMO PASSES with patch (should fail)"; rm -f $place/zz_demo_test.go; git checkout -q -- .; exit 1; fi
git checkout -q -- .
if ! timeout 120 go test -count=1 ./$place >/tmp/confirm_demo2.log 2>&1; then echo "DEMO FAILS without patch"; tail -5 /tmp/confirm_demo2.log; rm -f $place/zz_demo_test.go; exit 1; fi
rm -f $place/zz_demo_test.go
echo CONFIRMED
