#!/bin/bash
# selftest/run_benign.sh : behaviour-preserving changes (selftest/benign/*.diff) must NOT raise an alarm.
# Each is applied to a scratch worktree of /repo and the quick checks named below are run against it.
cd "$(dirname "$0")/.."
declare -A CHECKS=(
  [b1_prfplus_prealloc]="C07 C08 C17"
  [b2_integrity_helper]="C02 C06 C17 C04"
  [b3_notify_rename]="C03 C04 C05 C12 C20"
  [b4_decrypt_padding_rewritten]="C10 C04"
  [b5_setattr_const]="C14 C15"
  [b6_init_table_loop]="C11 C07"
  [b7_unsupported_branch_restructured]="C13 C04"
  [b8_iv_in_own_buffer]="C06 C17 C10"
  [b9_delete_marshal_presized]="C05 C03 C12"
)
bad=0
for f in ${BENIGN:-selftest/benign/*.diff}; do
  n=$(basename $f .diff)
  WT=$(mktemp -d /tmp/ikeben.XXXXXX); OUT=$(mktemp -d /tmp/ikebenout.XXXXXX)
  git -C /repo worktree add --detach "$WT" HEAD -q -f
  (cd "$WT" && git apply "$OLDPWD/$f") || { echo "$n: patch does not apply"; bad=1; }
  for prop in ${CHECKS[$n]}; do
    out=$(VERIF_REPO="$WT" VERIF_OUT="$OUT" ./check $prop quick 2>&1); rc=$?
    if [ $rc -ne 0 ]; then echo "$n $prop: ALARM (rc=$rc) $(echo "$out" | grep -E '^VIOLATION|ENGINE' | head -2 | cut -c1-300)"; bad=1; else echo "$n $prop: quiet"; fi
  done
  git -C /repo worktree remove --force "$WT"; rm -rf "$WT" "$OUT"
done
exit $bad
