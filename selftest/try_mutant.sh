#!/bin/bash
# try_mutant.sh <patch.diff> <prop>... : applies the patch to a scratch worktree of /repo (never to /repo itself),
# runs the quick checks against it with evidence redirected to a scratch directory, removes the worktree.
# Prints DETECTED/MISSED per property.
P=$(readlink -f "$1"); shift
WT=$(mktemp -d /tmp/ikemut.XXXXXX); OUT=$(mktemp -d /tmp/ikemutout.XXXXXX)
git -C /repo worktree add --detach "$WT" HEAD -q -f || { echo "cannot create worktree"; exit 2; }
trap 'git -C /repo worktree remove --force "$WT" 2>/dev/null; rm -rf "$WT" "$OUT"' EXIT
(cd "$WT" && git apply "$P") || { echo "patch does not apply"; exit 2; }
for prop in "$@"; do
  out=$(cd /verif && VERIF_REPO="$WT" VERIF_OUT="$OUT" ./check $prop quick 2>&1); rc=$?
  n=$(echo "$out" | grep -c '^VIOLATION')
  if [ $rc -eq 1 ] && [ $n -gt 0 ]; then echo "$prop DETECTED ($n): $(echo "$out" | grep '^VIOLATION' | head -2 | sed 's/replay=[^ ]* //' | cut -c1-260 | tr '\n' '|')"; else echo "$prop MISSED (rc=$rc): $(echo "$out" | tail -1 | cut -c1-200)"; fi
done
