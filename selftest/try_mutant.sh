#!/bin/bash
# try_mutant.sh <patch.diff> <prop>... : apply to /repo, run the quick checks, undo.  Prints DETECTED/MISSED per property.
P=$1; shift
cd /repo && git apply "$P" || { echo "patch does not apply to /repo"; exit 2; }
trap 'git -C /repo checkout -q -- .' EXIT
for prop in "$@"; do
  out=$(cd /verif && ./check $prop quick 2>&1); rc=$?
  n=$(echo "$out" | grep -c '^VIOLATION')
  if [ $rc -eq 1 ] && [ $n -gt 0 ]; then echo "$prop DETECTED ($n): $(echo "$out" | grep '^VIOLATION' | head -2 | sed 's/replay=[^ ]* //' | cut -c1-260 | tr '\n' '|')"; else echo "$prop MISSED (rc=$rc): $(echo "$out" | tail -1 | cut -c1-200)"; fi
done
