#!/usr/bin/env python3
"""Writes /verif/MANIFEST.json from the table below (kept in one place so the claimed
list, the not_applicable list and the engine's serves_properties cannot drift apart)."""
import json, os

HERE = os.path.dirname(os.path.dirname(os.path.abspath(__file__)))
TECH = ("contract-based deductive verification: SMT-discharged verification conditions generated from go/ssa "
        "(lemma functions and requires/ensures wrappers in guarded overlay files, Houdini-inferred and hand-written loop "
        "invariants, per-iteration step contracts, modular callee contracts); counterexamples concretised and replayed on the real package")
TRUST = ("Trusted: go/packages+go/ssa front end, the ikeverif VC generator, the SMT solvers (z3 5.1, cvc5 1.0.3, z3 4.8.12); "
         "assumed contracts of the standard-library functions called (listed per run in the evidence file); closed world for the "
         "library's own interfaces; runtime facts len<=cap<=2^48, allocation never fails. ")

CLAIMED = {
 "C03": dict(cat="proof", ref="DESIGN.md 4 (C03), 9",
  text="Round-trip lemma functions (value -> Marshal -> Unmarshal -> value) over the real Marshal/Unmarshal bodies, all field values and byte-string lengths/contents universally quantified: header, KE, IDi, IDr, CERT, CERTREQ, AUTH, Nonce, Notify, Vendor ID, SK, EAP framing are loop-free and proved without any bound. List-structured bodies (CP, Delete, TSi, TSr, SA, whole messages) are proved for a stated number of elements with the loops unrolled under an unwinding assertion; those obligations are reported as bounded stand-ins and are not counted under obligations/discharged.",
  note="Bounded stand-ins: CP 2 attributes, Delete 0/2 SPIs, TS 2 selectors (all four family combinations), SA 1 proposal with 1-2 transforms (TV / TLV / no attribute, SPI 0..255 octets), message of 0 and 2 payloads, trailing SK. EAP-AKA' bodies are decided under C14."),
 "C04": dict(cat="proof", ref="DESIGN.md 4 (C04), 2.3-2.6",
  text="Every index, slice, nil-dereference, type-assertion, make-size and external-precondition (binary.BigEndian, cipher.NewCBCDecrypter, CryptBlocks) condition on every path of every decoding entry point is a verification condition generated from the SSA of /repo's current source and discharged by an SMT solver for all inputs: byte strings of any length and content, any spare capacity, all 9 key suites and key values for unprotection, header absent / parsed from the same bytes / foreign. Bounds on slices derived from the input are the strict ones (<= len, not <= cap), so no octet behind the slice length is ever read. Every loop has a proved variant (remaining length / reader position / counter), so decoding terminates after at most len(input) iterations per loop level. Loops are cut by invariants inferred from templates (Houdini) plus the contract of the payload-chain walker; no bound on input size or iteration count.",
  note="SA key objects are the ones the library's constructors produce (all four direction objects present)."),
 "C05": dict(cat="proof", ref="DESIGN.md 4 (C05), 9",
  text="The independent codec is the set of layout assertions written from the RFC 7296 text into the lemma functions (offsets, widths, endianness, reserved octets zero, length fields equal to real extents, last-substructure markers, next-payload chain ending in 0, header length = datagram size): they are proved of the real encoders' output for all field values, and the real decoders are proved to recover the fields from arbitrary reference-built bytes, including sender liberties (reserved bits set, critical flag on understood payloads). Loop-free payloads and the header without bound; list bodies as bounded stand-ins as in C03.",
  note="'transforms in any order' is covered per transform (each is filed under its own type) in the bounded SA lemmas only."),
 "C07": dict(cat="proof", ref="DESIGN.md 4 (C07), 9.2",
  text="GenerateKeyForIKESA is executed symbolically for all 27 suites (one lemma per PRF, integrity and encryption algorithm symbolic), every nonce, shared secret and SPI pair, with HMAC as an uninterpreted function over abstract byte strings, and compared with a reference derivation written in the lemma over the standard library: SKEYSEED = HMAC(Ni|Nr, g^ir), seed = Ni|Nr|SPIi|SPIr (big endian), the seven keys = consecutive slices of prf+(SKEYSEED, seed) with the lengths typed from RFCs 2104/2403/2404/4868/3602 (also compared with the registries). The ready-to-use objects are probed: each PRF / integrity object computes HMAC under its key on any input, each cipher decrypts any ciphertext as textbook AES-CBC under its key. prf+ itself (lib.PrfPlus) is proved per iteration for every block and any buffered state of the hash object: T(i) = prf(K, T(i-1)|S|i), stream' = stream|T(i), with the loop invariant that ties block to the tail of stream; the seed builder has its own proved contract.",
  note="ASSUMED at the two call sites of lib.PrfPlus: its result is a function of (hash algorithm, key of the hash object, seed, length) - justified by the proved per-iteration contract, not itself a discharged obligation (the induction over blocks is an argument in DESIGN.md). Bounded stand-ins: whole-function comparison of PrfPlus with a textbook prf+ for outputs of 4 blocks (SHA-256) / 3 blocks (MD5). 'Initiator and responder end up with identical SAs' follows from the post-condition being a function of the inputs (C09 gives agreement on g^ir)."),
 "C08": dict(cat="proof", ref="DESIGN.md 4 (C08), 9.2",
  text="GenerateKeyForChildSA is executed symbolically for every PRF (one lemma each), every ESP encryption key size and integrity algorithm including 'absent', every SK_d and nonce, on an IKE SA whose long-lived Prf_d object carries arbitrary buffered state from earlier use, and a second derivation is made on the same object: both are proved equal to slices of prf+(SK_d, Ni|Nr) computed on a freshly keyed HMAC in the order i2r encryption, i2r integrity, r2i encryption, r2i integrity with the RFC key lengths. Independence from the object's history rests on the per-iteration contract of lib.PrfPlus (reset before every block), which is an obligation of this property too.",
  note="ASSUMED at the call site: lib.PrfPlus's result is a function of (algorithm, key, seed, length) (see C07). Destination fields of the ChildSAKey are empty, as on every object the library's constructors produce (the function appends to them)."),
 "C09": dict(cat="proof", ref="DESIGN.md 4 (C09), 9.2",
  text="(1) The group constants held by the registries after init equal the RFC primes, which were derived for this check from the RFCs' defining formula (2^n - 2^(n-64) - 1 + 2^64*(floor(2^k*pi)+c)) with mpmath, not copied from the code; generator 2; modulus lengths 128/256. (2) For every exponent x >= 0 and peer value y >= 0 (math/big integers as mathematical integers, modexp uninterpreted): GetPublicValue = I2OSP(2^x mod p, L) and GetSharedKey = I2OSP(y^x mod p, L), exactly L octets with leading zeros preserved, compared octet by octet with a textbook computation over math/big in the lemma; the make(L - len) size is proved non-negative from modexp < p. (3) Agreement for both groups from the commutation law of modular exponentiation. (4) GenerateRandomNumber returns an unmodified crypto/rand.Int draw n with 2^128 <= n < 2^2048, and any failing read of the random source makes GenerateRandomNumber and NewIKESAKey return an error and no number / no SA / no public value.",
  note="Assumed: math/big (SetString of constants evaluated, SetBytes/Bytes as OS2IP/I2OSP, Exp, Cmp), the number-theoretic law modexp(modexp(g,a,m),b,m) = modexp(modexp(g,b,m),a,m), crypto/rand.Int. Not decided: that successive exponents differ (distribution of the random source); termination of the rejection loop (probabilistic)."),
 "C10": dict(cat="proof", ref="DESIGN.md 4 (C10), 9.2",
  text="NewCrypto, Encrypt and Decrypt of the AES-CBC transform are executed symbolically for all three key sizes, every key and every plaintext / ciphertext (any length), with AES-CBC as an uninterpreted function over abstract byte strings and the single axiom CBCdec(k,iv,CBCenc(k,iv,x)) = x. Obligations: key accepted iff its length is the negotiated one and library-made objects carry no fixed IV/padding; size law len = 16+16k, n < 16k <= n+16; the leading 16 octets are exactly this call's successful draw from the system random source and the object retains nothing; the body decrypts under a textbook crypto/cipher CBC decrypter (written in the lemma) to the plaintext followed by padding whose last octet is 16k-n-1; any failing read of the random source yields an error and no ciphertext; Decrypt(Encrypt(p)) = p; short / misaligned / impossible-pad ciphertexts are refused and every possible pad length 0..255 is accepted with the textbook result.",
  note="'no IV repeats across calls' is a property of the random source's distribution and is not decided (only provenance: the IV is the call's own unmodified draw). The padding loop (<= 15 iterations) is unrolled completely with the unwinding assertion on. crypto/aes + crypto/cipher are assumed to be textbook AES-CBC."),
 "C11": dict(cat="proof", ref="DESIGN.md 4 (C11)",
  text="The registries' post-init state is computed by symbolically executing the packages' init functions; DecodeTransform/ToTransform/StrToType of all five registries and the proposal<->SA conversions are then verified for a fully symbolic transform (all 65536 identifiers, every attribute type/value/format/presence, any TLV bytes) in single quantifier-free queries: a decoded algorithm always carries the transform's identifier and key size, ToTransform;DecodeTransform is the identity on every registered descriptor, the length tables equal the RFC values written into the lemmas, and unsupported input yields nil / an error.",
  note="Key/output lengths are compared with constants typed from RFCs 2403/2404/4868/3602/2409/3526 in /verif/contracts/security."),
 "C12": dict(cat="proof", ref="DESIGN.md 4 (C12), 9",
  text="Stability lemma functions over arbitrary byte strings b (no precondition): Unmarshal(b) ok and Marshal ok imply that the re-encoding decodes to equal fields and re-encodes to the same bytes, and canonical inputs re-encode byte-identically. Proved without bound for the loop-free payloads (KE, IDi, IDr, CERT, CERTREQ, AUTH, Nonce, Notify, Vendor ID); CP and Delete as bounded stand-ins (<= 2 elements).",
  note="SA and EAP-AKA' stability: SA is covered by the bounded round-trip lemmas of C03 only; AKA' under C14."),
 "C13": dict(cat="proof", ref="DESIGN.md 4 (C13)",
  text="Per-iteration step contracts of the payload-chain walker, proved for every iteration (the loop is cut at its head with an inferred invariant, so the position in the chain and the chain length are unbounded): an unsupported type (all 239 codes are one symbolic value) with the critical bit clear leaves the container untouched and continues with exactly (next = octet 0, rest = bytes after the stated length); with the critical bit set the iteration can only leave through the error return; for implemented types exactly one element is appended and octet 1 plays no role.",
  note="The whole-message corollary ('decodes exactly as the same message without them') follows from the step contract by induction over the chain; the induction itself is an argument in DESIGN.md, not a discharged obligation."),
 "C16": dict(cat="proof", ref="DESIGN.md 4 (C16), 9.2",
  text="EapAkaPrimePRF is executed symbolically against a textbook PRF' written in the lemma over the standard library's HMAC (T1 = HMAC(K, S|1), Tn = HMAC(K, T(n-1)|S|n)); HMAC-SHA-256 is an uninterpreted function over abstract byte-string values, so the comparison holds for every IK', CK' (any lengths >= 1) and identity string. Both loops have the constant trip count 7 and are unrolled completely with the unwinding assertion on (complete, not bounded). Obligations: empty IK'/CK' refused; result lengths 16/32/32/64/64; each result equals the stated octet range of T1|..|T7.",
  note="HMAC-SHA-256 is uninterpreted (only its output length is used); byte-string extensionality is instantiated for every pair of HMAC arguments; input lengths up to 2^40."),
 "C19": dict(cat="proof", ref="DESIGN.md 4 (C19)",
  text="Every builder and constructor is loop-free; its lemma function proves for all arguments and any prior container content that exactly one element is appended, earlier elements are untouched, the new element's dynamic type and fields equal the arguments (byte strings by content, in fresh storage), NewHeader sets version 2.0 and exactly the 0x20/0x08 flag bits which IsResponse/IsInitiator report back, and the 3GPP helpers emit the TS 24.502 layouts written into the lemmas, with errors (not truncation) for oversize arguments.",
  note="net.ParseIP(...).To4() is an assumed contract."),
 "C20": dict(cat="proof", ref="DESIGN.md 4 (C20), 9",
  text="Ownership is a static obligation: every byte-slice field written by an Unmarshal is proved to live in storage allocated during the call and to be disjoint from the input buffer (verifFresh / verifDisjoint in the lemma functions, for all inputs); Encode is proved to leave the payload list and payload fields unchanged, to return a buffer disjoint from everything the message references, and two consecutive encodings are proved byte-identical (bounded: messages of 2 payloads).",
  note="Unprotection ownership (DecodeDecrypt) and encryptMsg's frame are decided under C01/C06 lemmas when claimed there."),
}

NOT_APPLICABLE = {
}

ORDER = ["C%02d" % i for i in range(1, 21)]
PENDING = "not reached yet with contract-based deductive verification (work in progress; see DESIGN.md section 9)"

def main():
    checks = []
    for pid in ORDER:
        if pid not in CLAIMED:
            continue
        c = CLAIMED[pid]
        checks.append({
            "property_id": pid,
            "quick_cmd": "./check %s quick" % pid,
            "thorough_cmd": "./check %s thorough" % pid,
            "evidence_file": "/verif/evidence/%s.json" % pid,
            "replay_cmd_template": "./check --replay {path}",
            "engine": "ikeverif",
            "level_claimed": {"category": c["cat"], "text": c["text"], "design_ref": c["ref"]},
            "level_note": TRUST + c["note"],
            "technique": c.get("tech", TECH),
        })
    na = []
    for pid in ORDER:
        if pid in CLAIMED:
            continue
        na.append({"property_id": pid, "reason": NOT_APPLICABLE.get(pid, PENDING)})
    m = {
        "version": 1,
        "setup_cmd": "cd /verif/engine && GOFLAGS=-mod=mod GOPROXY=off GOSUMDB=off GOTOOLCHAIN=local CGO_ENABLED=0 go build -o /verif/bin/ikeverif .",
        "hooks": {
            "guard": "verif",
            "enable": "no change to /repo: contracts, lemma functions and replay drivers live in /verif/contracts/<pkg>/*.go (//go:build verif) and are injected in-package through the overlay mechanism of go/packages (verification) and `go test -overlay -tags verif` (replay)",
            "baseline_off_cmd": "cd /repo && GOFLAGS=-mod=mod GOPROXY=off GOSUMDB=off GOTOOLCHAIN=local go test -vet=off -count=1 ./...",
            "source_commits": [],
            "add_only": True,
        },
        "engines": [{
            "name": "ikeverif",
            "path": "/verif/engine",
            "serves_properties": [p for p in ORDER if p in CLAIMED],
            "kind_free_text": "contract-based deductive verifier for Go written for this task: weakest-precondition style VC generation by symbolic execution of go/ssa (x/tools v0.29.0), contracts as type-checked wrapper/invariant/step functions in guarded overlay files, obligations discharged by z3 5.1 / cvc5 1.0.3 / z3 4.8.12, counterexamples concretised by loop unrolling and replayed on the real package",
        }],
        "checks": checks,
        "notes": "see DESIGN.md (section 9 = what was built and which seeded changes each check catches)",
        "not_applicable": na,
    }
    with open(os.path.join(HERE, "MANIFEST.json"), "w") as f:
        json.dump(m, f, indent=1)
        f.write("\n")

if __name__ == "__main__":
    main()
