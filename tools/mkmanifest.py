#!/usr/bin/env python3
"""Writes /verif/MANIFEST.json from the table below (kept in one place so the claimed
list, the not_applicable list and the engine's serves_properties cannot drift apart)."""
import json, os

HERE = os.path.dirname(os.path.dirname(os.path.abspath(__file__)))
TECH = ("contract-based deductive verification: SMT-discharged verification conditions generated from go/ssa "
        "(lemma functions and requires/ensures wrappers in guarded overlay files, Houdini-inferred and hand-written loop "
        "invariants, per-iteration step contracts, modular callee contracts); counterexamples concretised and replayed on the real package")
TRUST = ("Trusted: go/packages+go/ssa front end, the ikeverif VC generator, the SMT solvers (z3 5.1, cvc5 1.0.3, z3 4.8.12); "
         "assumed contracts of the standard-library functions called (listed per run in the evidence file); closed world for the "
         "library's own interfaces; runtime facts len<=cap<=2^48, allocation never fails. ")

CLAIMED = {
 "C01": dict(cat="proof", ref="DESIGN.md 4 (C01), 9.3",
  text="The round trip is decided as the composition of two discharged halves over one explicit wire form: (a) lemma_C06_format proves, for all 9 suites, both roles, all keys, header fields and payload data, that what EncodeEncrypt emits is header | SK header | IV | CBC_enc(sender key, payloads|pad|padlen) | HMAC(sender key, everything before)[:icv]; (b) lemma_C06_accept / _empty prove that ANY datagram of that form (any IV, any legal padding, built by a textbook encoder in the lemma) is accepted by DecodeDecrypt in the opposite role with the same keys - header pre-parsed or not - and yields the original header fields and payload; plus the nil-key lemma (plain encode / decode) which is proved without bound. Both halves start from an SA object with an arbitrary history, abstracted as 'same keys, arbitrary buffered hash input'; that abstraction is justified by the frame condition of lemma_C17_state_preserved, whose obligations are counted here as well. AES-CBC and HMAC are uninterpreted with CBCdec(CBCenc(x)) = x.",
  note="The composition (a)+(b) => round trip is an argument in DESIGN.md 9.3 (it additionally uses CBCenc(CBCdec(c)) = c), not one SMT query: executing the decoder symbolically on the encoder's symbolic output exceeds the executor's memory budget. Bounded stand-ins: payload lists of exactly one payload (Nonce, any data up to 60000 octets) and the empty list; other payload kinds inherit C03's per-payload results."),
 "C02": dict(cat="proof", ref="DESIGN.md 4 (C02), 9.3",
  text="Structural core of rejection, proved with spy ciphers installed in the public Encr_i / Encr_r fields: for ANY received bytes and ANY SK body (related or not), at decryptMsg and again at the public entry point DecodeDecrypt (any header fields and flags, header pre-parsed or not), ciphertext reaches a cipher only after the truncated HMAC under the receiver's PEER-direction integrity key over every octet from the first header octet up to the checksum has been found equal to the checksum (all icv octets), and then exactly the peer-direction cipher is called once with the SK body minus checksum; the receiver's role alone selects the direction. A datagram presenting no SK payload is handled as an unprotected datagram with no cipher call. Safety (no crash on any bytes) is C04.",
  note="That a tampered / truncated / spliced / cross-key / reflected datagram does not satisfy the HMAC equation is the ideal-MAC assumption (forgery probability 2^-96 or less), not a proof obligation. Bounded: datagrams with exactly one SK payload at the entry point; one unprotected Nonce payload for the non-SK case."),
 "C03": dict(cat="proof", ref="DESIGN.md 4 (C03), 9",
  text="Round-trip lemma functions (value -> Marshal -> Unmarshal -> value) over the real Marshal/Unmarshal bodies, all field values and byte-string lengths/contents universally quantified: header, KE, IDi, IDr, CERT, CERTREQ, AUTH, Nonce, Notify, Vendor ID, SK, EAP framing are loop-free and proved without any bound. List-structured bodies (CP, Delete, TSi, TSr, SA, whole messages) are proved for a stated number of elements with the loops unrolled under an unwinding assertion; those obligations are reported as bounded stand-ins and are not counted under obligations/discharged.",
  note="Bounded stand-ins: CP 2 attributes, Delete 0/2 SPIs, TS 2 selectors (all four family combinations), SA 1 proposal with 1-2 transforms (TV / TLV / no attribute, SPI 0..255 octets), message of 0 and 2 payloads, trailing SK. EAP-AKA' bodies are decided under C14."),
 "C04": dict(cat="proof", ref="DESIGN.md 4 (C04), 2.3-2.6",
  text="Every index, slice, nil-dereference, type-assertion, make-size and external-precondition (binary.BigEndian, cipher.NewCBCDecrypter, CryptBlocks) condition on every path of every decoding entry point is a verification condition generated from the SSA of /repo's current source and discharged by an SMT solver for all inputs: byte strings of any length and content, any spare capacity, all 9 key suites and key values for unprotection, header absent / parsed from the same bytes / foreign. Bounds on slices derived from the input are the strict ones (<= len, not <= cap), so no octet behind the slice length is ever read. Every loop has a proved variant (remaining length / reader position / counter), so decoding terminates after at most len(input) iterations per loop level. Loops are cut by invariants inferred from templates (Houdini) plus the contract of the payload-chain walker; no bound on input size or iteration count.",
  note="SA key objects are the ones the library's constructors produce (all four direction objects present)."),
 "C05": dict(cat="proof", ref="DESIGN.md 4 (C05), 9",
  text="The independent codec is the set of layout assertions written from the RFC 7296 text into the lemma functions (offsets, widths, endianness, reserved octets zero, length fields equal to real extents, last-substructure markers, next-payload chain ending in 0, header length = datagram size): they are proved of the real encoders' output for all field values, and the real decoders are proved to recover the fields from arbitrary reference-built bytes, including sender liberties (reserved bits set, critical flag on understood payloads). Loop-free payloads and the header without bound; list bodies as bounded stand-ins as in C03.",
  note="'transforms in any order' is covered per transform (each is filed under its own type) in the bounded SA lemmas only."),
 "C06": dict(cat="proof", ref="DESIGN.md 4 (C06), 9.3",
  text="Sender side (lemma_C06_format): for all 9 suites, both roles, every key, header field and payload datum, on an SA object with any history, the protected message is header (next = SK, length = datagram size) | SK generic header (next = type of the first inner payload or 0, length = final size) | 16-octet IV that is this call's draw from the random source | a body that a textbook AES-CBC decrypter under the SENDER's direction key turns into the inner payloads followed by padding and the pad-length octet | the truncated textbook HMAC under the sender's direction integrity key over everything before it. Receiver side (lemma_C06_accept / _empty): datagrams built by a textbook implementation in the lemma with ANY IV and ANY legal pad length 0..255 with arbitrary pad octets are accepted and decode to the payloads they were built from.",
  note="AES-CBC and HMAC uninterpreted (inverse axiom only). Bounded stand-ins: inner payload list of exactly one payload (Nonce, any data <= 60000 octets) or empty."),
 "C07": dict(cat="proof", ref="DESIGN.md 4 (C07), 9.2",
  text="GenerateKeyForIKESA is executed symbolically for all 27 suites (one lemma per PRF, integrity and encryption algorithm symbolic), every nonce, shared secret and SPI pair, with HMAC as an uninterpreted function over abstract byte strings, and compared with a reference derivation written in the lemma over the standard library: SKEYSEED = HMAC(Ni|Nr, g^ir), seed = Ni|Nr|SPIi|SPIr (big endian), the seven keys = consecutive slices of prf+(SKEYSEED, seed) with the lengths typed from RFCs 2104/2403/2404/4868/3602 (also compared with the registries). The ready-to-use objects are probed: each PRF / integrity object computes HMAC under its key on any input, each cipher decrypts any ciphertext as textbook AES-CBC under its key. prf+ itself (lib.PrfPlus) is proved per iteration for every block and any buffered state of the hash object: T(i) = prf(K, T(i-1)|S|i), stream' = stream|T(i), with the loop invariant that ties block to the tail of stream; the seed builder has its own proved contract.",
  note="ASSUMED at the two call sites of lib.PrfPlus: its result is a function of (hash algorithm, key of the hash object, seed, length) - justified by the proved per-iteration contract, not itself a discharged obligation (the induction over blocks is an argument in DESIGN.md). Bounded stand-ins: whole-function comparison of PrfPlus with a textbook prf+ for outputs of 4 blocks (SHA-256) / 3 blocks (MD5). 'Initiator and responder end up with identical SAs' follows from the post-condition being a function of the inputs (C09 gives agreement on g^ir)."),
 "C08": dict(cat="proof", ref="DESIGN.md 4 (C08), 9.2",
  text="GenerateKeyForChildSA is executed symbolically for every PRF (one lemma each), every ESP encryption key size and integrity algorithm including 'absent', every SK_d and nonce, on an IKE SA whose long-lived Prf_d object carries arbitrary buffered state from earlier use, and a second derivation is made on the same object: both are proved equal to slices of prf+(SK_d, Ni|Nr) computed on a freshly keyed HMAC in the order i2r encryption, i2r integrity, r2i encryption, r2i integrity with the RFC key lengths. Independence from the object's history rests on the per-iteration contract of lib.PrfPlus (reset before every block), which is an obligation of this property too.",
  note="ASSUMED at the call site: lib.PrfPlus's result is a function of (algorithm, key, seed, length) (see C07). Destination fields of the ChildSAKey are empty, as on every object the library's constructors produce (the function appends to them)."),
 "C09": dict(cat="proof", ref="DESIGN.md 4 (C09), 9.2",
  text="(1) The group constants held by the registries after init equal the RFC primes, which were derived for this check from the RFCs' defining formula (2^n - 2^(n-64) - 1 + 2^64*(floor(2^k*pi)+c)) with mpmath, not copied from the code; generator 2; modulus lengths 128/256. (2) For every exponent x >= 0 and peer value y >= 0 (math/big integers as mathematical integers, modexp uninterpreted): GetPublicValue = I2OSP(2^x mod p, L) and GetSharedKey = I2OSP(y^x mod p, L), exactly L octets with leading zeros preserved, compared octet by octet with a textbook computation over math/big in the lemma; the make(L - len) size is proved non-negative from modexp < p. (3) Agreement for both groups from the commutation law of modular exponentiation. (4) GenerateRandomNumber returns an unmodified crypto/rand.Int draw n with 2^128 <= n < 2^2048, and any failing read of the random source makes GenerateRandomNumber and NewIKESAKey return an error and no number / no SA / no public value.",
  note="Assumed: math/big (SetString of constants evaluated, SetBytes/Bytes as OS2IP/I2OSP, Exp, Cmp), the number-theoretic law modexp(modexp(g,a,m),b,m) = modexp(modexp(g,b,m),a,m), crypto/rand.Int. Not decided: that successive exponents differ (distribution of the random source); termination of the rejection loop (probabilistic)."),
 "C10": dict(cat="proof", ref="DESIGN.md 4 (C10), 9.2",
  text="NewCrypto, Encrypt and Decrypt of the AES-CBC transform are executed symbolically for all three key sizes, every key and every plaintext / ciphertext (any length), with AES-CBC as an uninterpreted function over abstract byte strings and the single axiom CBCdec(k,iv,CBCenc(k,iv,x)) = x. Obligations: key accepted iff its length is the negotiated one and library-made objects carry no fixed IV/padding; size law len = 16+16k, n < 16k <= n+16; the leading 16 octets are exactly this call's successful draw from the system random source and the object retains nothing; the body decrypts under a textbook crypto/cipher CBC decrypter (written in the lemma) to the plaintext followed by padding whose last octet is 16k-n-1; any failing read of the random source yields an error and no ciphertext; Decrypt(Encrypt(p)) = p; short / misaligned / impossible-pad ciphertexts are refused and every possible pad length 0..255 is accepted with the textbook result.",
  note="'no IV repeats across calls' is a property of the random source's distribution and is not decided (only provenance: the IV is the call's own unmodified draw). The padding loop (<= 15 iterations) is unrolled completely with the unwinding assertion on. crypto/aes + crypto/cipher are assumed to be textbook AES-CBC."),
 "C11": dict(cat="proof", ref="DESIGN.md 4 (C11)",
  text="The registries' post-init state is computed by symbolically executing the packages' init functions; DecodeTransform/ToTransform/StrToType of all five registries and the proposal<->SA conversions are then verified for a fully symbolic transform (all 65536 identifiers, every attribute type/value/format/presence, any TLV bytes) in single quantifier-free queries: a decoded algorithm always carries the transform's identifier and key size, ToTransform;DecodeTransform is the identity on every registered descriptor, the length tables equal the RFC values written into the lemmas, unsupported input yields nil / an error, and a conversion is unaffected by whatever the caller did to the transforms earlier conversions returned (every conversion returns its own object).",
  note="Key/output lengths are compared with constants typed from RFCs 2403/2404/4868/3602/2409/3526 in /verif/contracts/security."),
 "C12": dict(cat="proof", ref="DESIGN.md 4 (C12), 9",
  text="Stability lemma functions over arbitrary byte strings b (no precondition): Unmarshal(b) ok and Marshal ok imply that the re-encoding decodes to equal fields and re-encodes to the same bytes, and canonical inputs re-encode byte-identically. Proved without bound for the loop-free payloads (KE, IDi, IDr, CERT, CERTREQ, AUTH, Nonce, Notify, Vendor ID); CP and Delete as bounded stand-ins (<= 2 elements).",
  note="SA and EAP-AKA' stability: SA is covered by the bounded round-trip lemmas of C03 only; AKA' under C14."),
 "C13": dict(cat="proof", ref="DESIGN.md 4 (C13)",
  text="Per-iteration step contracts of the payload-chain walker, proved for every iteration (the loop is cut at its head with an inferred invariant, so the position in the chain and the chain length are unbounded): an unsupported type (all 239 codes are one symbolic value) with the critical bit clear leaves the container untouched and continues with exactly (next = octet 0, rest = bytes after the stated length); with the critical bit set the iteration can only leave through the error return; for implemented types exactly one element is appended and octet 1 plays no role. An exit predicate, checked on every edge that leaves the loop from inside its body, proves the converse half: an iteration that meets a well-formed unsupported payload gives the walk up only when the critical bit is set.",
  note="The whole-message corollary ('decodes exactly as the same message without them') follows from the step contract by induction over the chain; the induction itself is an argument in DESIGN.md, not a discharged obligation."),
 "C14": dict(cat="proof", ref="DESIGN.md 4 (C14), 9.4",
  text="EAP framing proved without bound for every code, identifier and datum: Success/Failure (header only, length 4), Identity / Notification / Nak (type octet, data, length field = packet size, round trip), Expanded (254, 24-bit vendor id, 32-bit vendor type), oversize packets refused instead of truncated. The EAP-AKA' setter is proved for every attribute type and every offered size 0..300: size rules (RAND/AUTN/MAC 16, KDF 2, RES 4..16, CHECKCODE 0/20/32), length in words, exact bit length for RES / KDF_INPUT, and 'the value read back is exactly the value set'. Per attribute type, one-attribute packets: Marshal emits the RFC 4187/5448 layout (multiple of four octets, zero padding, bit length), encoding twice is identical, and every well-formed wire image built octet by octet in the lemma (any padding octets) decodes to the value it carries and re-encodes to the same octets when canonical.",
  note="Bounded stand-ins: EAP-AKA' packets with exactly one attribute (maps and the sorted key enumeration are executed exactly: range over a map as an arbitrary enumeration of the present keys, sort.Slice as a sorting network for <= 4 elements). Five genuine defects found by these lemmas were repaired (known_findings.json, 'fixed')."),
 "C15": dict(cat="proof", ref="DESIGN.md 4 (C15), 9.4",
  text="Sender: for every code, identifier, subtype, RAND, key and previous AT_MAC value, CalcEapAkaPrimeAtMAC returns the first 16 octets of textbook HMAC-SHA-256 under the key over the wire image written octet by octet in the lemma with the AT_MAC value zeroed. Receiver: decoding a transmitted packet (ascending attribute order, as the library sends) and computing the code with the same key gives the HMAC over the transmitted octets with AT_MAC zeroed. initMAC zeroes AT_MAC whatever it held; non-AKA' packets are refused.",
  note="HMAC-SHA-256 uninterpreted: 'a different value if any octet or the key differs' is the ideal-MAC assumption. Bounded stand-ins: packets with AT_RAND + AT_MAC. KNOWN FINDING (not repaired, needs an order-preserving representation): for packets received with attributes in non-ascending order the code is computed over the re-ordered packet."),
 "C16": dict(cat="proof", ref="DESIGN.md 4 (C16), 9.2",
  text="EapAkaPrimePRF is executed symbolically against a textbook PRF' written in the lemma over the standard library's HMAC (T1 = HMAC(K, S|1), Tn = HMAC(K, T(n-1)|S|n)); HMAC-SHA-256 is an uninterpreted function over abstract byte-string values, so the comparison holds for every IK', CK' (any lengths >= 1) and identity string. Both loops have the constant trip count 7 and are unrolled completely with the unwinding assertion on (complete, not bounded). Obligations: empty IK'/CK' refused; result lengths 16/32/32/64/64; each result equals the stated octet range of T1|..|T7.",
  note="HMAC-SHA-256 is uninterpreted (only its output length is used); byte-string extensionality is instantiated for every pair of HMAC arguments; input lengths up to 2^40."),
 "C17": dict(cat="proof", ref="DESIGN.md 4 (C17), 9.3",
  text="History is cut by an object invariant instead of being explored: (1) lemma_C17_state_preserved proves that EncodeEncrypt and decryptMsg (any received bytes, any SK body: genuine, forged or malformed; success and every error return) leave the SA's object slots and cipher-object fields exactly as they were, and lemma_C17_child_derivation that a Child SA derivation leaves Prf_d / PrfInfo / SK_d as they were - and a frame condition (assigns clause generated from the executor's write log, one obligation per memory kind written) proves that protect / unprotect write to nothing that existed before the call except the message object handed in and the hash objects' buffered input - which also covers fields added to the SA or cipher objects later - so all any history can change is the buffered input of the long-lived hash objects; (2) every operation is then proved to meet its fresh-object contract from a state with ARBITRARY buffered hash input: protected messages have the reference form a fresh peer accepts (C06 format lemma), genuine reference-built messages are accepted (C06 accept lemma), forged ones fail the same HMAC equation (C02 lemma), derived Child SA keys equal those of a fresh SA (C08 lemma, two derivations in a row), and lib.PrfPlus's per-iteration contract holds for any buffered state. By induction over the history this covers every sequence of operations (the property's length-64 exploration is subsumed).",
  note="The induction over the history is an argument (DESIGN.md 9.3) over discharged per-operation obligations. Bounded stand-ins as in C06/C02 (one inner payload)."),
 "C18": dict(cat="other", ref="DESIGN.md 4 (C18), 9.5",
  tech="frame (assigns) obligations decided by a data-flow analysis over go/ssa: no write to package-level state outside initialisers, interprocedural write-through-parameter and returns-shared summaries",
  text="What contract-based verification can express of this property is its stated reason: the library keeps no mutable state outside the objects passed in. A frame analysis over the SSA of every non-test library function (one obligation per function) proves that outside package initialisers nothing derived from a package-level variable is stored to, appended to, copied into, map-updated, passed to a repository function that writes through that parameter, or passed to an external function not on a short read-only list; that no function writes through a []byte parameter, not even into its spare capacity (except the padding helpers documented to extend the plaintext buffer they are given), so input buffers may be shared read-only; and that library code uses no goroutines, channels, sync, atomic or unsafe. With the per-operation frame results of C20 / C17 / C19 (decoders own their output, encoders return fresh buffers, SA operations touch only the SA passed in) operations on disjoint arguments write disjoint memory, hence cannot race (Go memory model) and return what they return alone. The protect / unprotect frame condition of lemma_C17_state_preserved (SMT obligations) is counted here too.",
  note="NOT decided: the schedule quantifier itself - no interleaving is executed and the race detector's observations are not reproduced; thread-safety of crypto/rand.Reader and of math/big read-only operations is assumed."),
 "C19": dict(cat="proof", ref="DESIGN.md 4 (C19)",
  text="Every builder and constructor is loop-free; its lemma function proves for all arguments and any prior container content that exactly one element is appended, earlier elements are untouched, the new element's dynamic type and fields equal the arguments (byte strings by content, in fresh storage), NewHeader sets version 2.0 and exactly the 0x20/0x08 flag bits which IsResponse/IsInitiator report back, and the 3GPP helpers emit the TS 24.502 layouts written into the lemmas, with errors (not truncation) for oversize arguments.",
  note="net.ParseIP(...).To4() is an assumed contract."),
 "C20": dict(cat="proof", ref="DESIGN.md 4 (C20), 9",
  text="Ownership is a static obligation: every byte-slice field written by an Unmarshal is proved to live in storage allocated during the call and to be disjoint from the input buffer (verifFresh / verifDisjoint in the lemma functions, for all inputs); Encode is proved to leave the payload list and payload fields unchanged, to return a buffer disjoint from everything the message references, and two consecutive encodings are proved byte-identical (bounded: messages of 2 payloads).",
  note="Unprotection ownership (DecodeDecrypt) is an assertion of lemma_C06_accept; encryptMsg's / decryptMsg's frame (nothing written but the message object handed in and hash input - in particular not the payload container the caller built the message from) is the frame condition of lemma_C17_state_preserved, counted here."),
}

NOT_APPLICABLE = {
}

ORDER = ["C%02d" % i for i in range(1, 21)]
PENDING = "not reached yet with contract-based deductive verification (work in progress; see DESIGN.md section 9)"

def main():
    checks = []
    for pid in ORDER:
        if pid not in CLAIMED:
            continue
        c = CLAIMED[pid]
        checks.append({
            "property_id": pid,
            "quick_cmd": "./check %s quick" % pid,
            "thorough_cmd": "./check %s thorough" % pid,
            "evidence_file": "/verif/evidence/%s.json" % pid,
            "replay_cmd_template": "./check --replay {path}",
            "engine": "ikeverif",
            "level_claimed": {"category": c["cat"], "text": c["text"], "design_ref": c["ref"]},
            "level_note": TRUST + c["note"],
            "technique": c.get("tech", TECH),
        })
    na = []
    for pid in ORDER:
        if pid in CLAIMED:
            continue
        na.append({"property_id": pid, "reason": NOT_APPLICABLE.get(pid, PENDING)})
    m = {
        "version": 1,
        "setup_cmd": "cd /verif/engine && GOFLAGS=-mod=mod GOPROXY=off GOSUMDB=off GOTOOLCHAIN=local CGO_ENABLED=0 go build -o /verif/bin/ikeverif .",
        "hooks": {
            "guard": "verif",
            "enable": "no change to /repo: contracts, lemma functions and replay drivers live in /verif/contracts/<pkg>/*.go (//go:build verif) and are injected in-package through the overlay mechanism of go/packages (verification) and `go test -overlay -tags verif` (replay)",
            "baseline_off_cmd": "cd /repo && GOFLAGS=-mod=mod GOPROXY=off GOSUMDB=off GOTOOLCHAIN=local go test -vet=off -count=1 ./...",
            "source_commits": [],
            "add_only": True,
        },
        "engines": [{
            "name": "ikeverif",
            "path": "/verif/engine",
            "serves_properties": [p for p in ORDER if p in CLAIMED],
            "kind_free_text": "contract-based deductive verifier for Go written for this task: weakest-precondition style VC generation by symbolic execution of go/ssa (x/tools v0.29.0), contracts as type-checked wrapper/invariant/step functions in guarded overlay files, obligations discharged by z3 5.1 / cvc5 1.0.3 / z3 4.8.12, counterexamples concretised by loop unrolling and replayed on the real package",
        }],
        "checks": checks,
        "notes": "see DESIGN.md (section 9 = what was built and which seeded changes each check catches)",
        "not_applicable": na,
    }
    with open(os.path.join(HERE, "MANIFEST.json"), "w") as f:
        json.dump(m, f, indent=1)
        f.write("\n")

if __name__ == "__main__":
    main()
