#!/opt/veriftools/pyvenv/bin/python3
"""Derives the MODP primes of RFC 2409 6.2 (group 2) and RFC 3526 3 (group 14) from the
defining formulas  p = 2^n - 2^(n-64) - 1 + 2^64 * ( floor(2^k * pi) + c )  with mpmath,
independently of the hex strings in /repo.  The constants in
/verif/contracts/security/dh/c09.go were produced by this script."""
from mpmath import mp, mpf, floor
mp.prec = 4000
def prime(bits, k, c):
    return 2**bits - 2**(bits-64) - 1 + 2**64 * (int(floor(mp.pi * (mpf(2)**k))) + c)
print("group 2 : %X" % prime(1024, 894, 129093))
print("group 14: %X" % prime(2048, 1918, 124476))
